#!/bin/bash
# runs checks against a seeded change: apply to /repo, run each check (quick tier), restore /repo
# usage: tools/eval_seed.sh <dir with patch.diff> <check id>...
src=$1; shift
cd /verif
git -C /repo diff --quiet || { echo "/repo not clean"; exit 2; }
git -C /repo apply "$src/patch.diff" || { echo "patch does not apply"; exit 2; }
for c in "$@"; do
  timeout 3600 ./vf check $c --tier ${TIER:-quick} > "$src/check_$c.out" 2>&1; echo "$c exit=$?" | tee -a "$src/eval.log"
  grep -a "^VIOLATION\|^OK\|^BROKEN" "$src/check_$c.out" | head -3 | cut -c1-200 | tee -a "$src/eval.log"
done
git -C /repo checkout -- .

#!/bin/bash
# runs checks against a seeded change: apply to /repo, run each check (quick tier), restore /repo
# usage: tools/eval_seed.sh <dir with patch.diff> <check id>...
src=$1; shift
cd /verif
git -C /repo diff --quiet || { echo "/repo not clean"; exit 2; }
git -C /repo apply "$src/patch.diff" || { echo "patch does not apply"; exit 2; }
for c in "$@"; do
  # the evidence file of the unchanged tree must survive: a run against a seeded change rewrites evidence/<id>.json
  cp -p evidence/$c.json /tmp/.eval_seed_$c.json 2>/dev/null
  timeout 3600 ./vf check $c --tier ${TIER:-quick} > "$src/check_$c.out" 2>&1; echo "$c exit=$?" | tee -a "$src/eval.log"
  grep -a "^VIOLATION\|^OK\|^BROKEN" "$src/check_$c.out" | head -3 | cut -c1-200 | tee -a "$src/eval.log"
  [ -f /tmp/.eval_seed_$c.json ] && mv /tmp/.eval_seed_$c.json evidence/$c.json
done
git -C /repo checkout -- .

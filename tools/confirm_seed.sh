#!/bin/bash
# confirms a seeded change independently: fresh worktree, apply patch, build + full test suite must pass, demo must FAIL with the change and PASS without it
# usage: tools/confirm_seed.sh <dir with patch.diff and demo.cpp> [extra g++ flags for the demo]
set -u
src=$1; shift; extra="$*"
id=$(basename "$src")
wt=$(/verif/tools/mk_seed_worktree.sh chk_$id)
log=$src/confirm.log; : > $log
cd $wt
git apply "$src/patch.diff" || { echo "PATCH DOES NOT APPLY" | tee -a $log; exit 2; }
cmake --build _build >> $log 2>&1 || { echo "BUILD FAILS" | tee -a $log; exit 2; }
if ! ctest --test-dir _build -j8 --timeout 300 >> $log 2>&1; then echo "TESTS FAIL WITH THE CHANGE" | tee -a $log; exit 2; fi
build_demo() { g++ -std=c++20 -g -O1 -fsanitize=address,undefined -fno-sanitize-recover=undefined $extra -I$wt/include "$src/demo.cpp" $wt/_build/libtulz.a -lpthread -o $wt/demo_bin >> $log 2>&1; }
run_demo() { ASAN_OPTIONS=detect_stack_use_after_return=1:detect_leaks=1 TSAN_OPTIONS=exitcode=66 timeout 120 $wt/demo_bin >> $log 2>&1; }
build_demo || { echo "DEMO DOES NOT BUILD" | tee -a $log; exit 2; }
run_demo; with=$?
git apply -R "$src/patch.diff"; cmake --build _build >> $log 2>&1
build_demo; run_demo; without=$?
echo "demo exit with change: $with, without: $without" | tee -a $log
cd /; git -C /repo worktree remove --force $wt
[ $with -ne 0 ] && [ $without -eq 0 ] && { echo CONFIRMED | tee -a $log; exit 0; }
echo "NOT CONFIRMED" | tee -a $log; exit 1

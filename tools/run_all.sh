#!/bin/bash
# runs every registered check (quick tier by default) on the current /repo tree, one after the other; summary at the end
cd /verif
tier=${1:-quick}
ids=$(python3 -c "import json; print(' '.join(c['property_id'] for c in json.load(open('MANIFEST.json'))['checks']))")
for c in ${2:-$ids}; do
  s=$(date +%s); timeout 7200 ./vf check $c --tier $tier > /tmp/runall_$c.out 2>&1; rc=$?
  echo "$c rc=$rc $(( $(date +%s) - s ))s $(grep -a '^OK\|^VIOLATION\|^BROKEN\|^KNOWN' /tmp/runall_$c.out | head -2 | cut -c1-160 | tr '\n' '|')"
done

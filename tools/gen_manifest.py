#!/usr/bin/env python3
"""regenerates MANIFEST.json from the table below (kept in one place so that it is always valid)"""
import json, os
V = os.path.dirname(os.path.dirname(os.path.abspath(__file__)))
ids = [json.loads(l)['id'] for l in open(os.path.join(V, 'properties.jsonl'))]
TB = 'clang-14 front end and -O1 pipeline; ll2c IR->C translator; CBMC 6.11 (MiniSat); runtime models in /verif/rt; '
CHECKS = {
 'C04': dict(
   text='Bounded model checking of the real RingBuffer.h (clang IR -> C -> CBMC): one inductive step from an ARBITRARY valid state (head position, size, contents symbolic) for every operation kind, '
        'plus the constructor base cases, compared with an array model of a bounded deque. Covers every history within the capacity bound (quick: capacities 1..4, thorough 1..6), both overwrite modes. '
        'Counterexamples are replayed on the g++/libstdc++ build under ASan before being reported.',
   note=TB + 'real libstdc++ <iterator>/<algorithm>; CBMC built-in malloc/realloc/memcpy; capacities above the bound, resize(0) and allocation failure are outside the claim.',
   technique='SAT-based bounded model checking (CBMC) of clang-lowered RingBuffer code; 1-step induction over a symbolic pre-state', design='4/C04'),
 'C09': dict(
   text='Same inductive-step encoding of the real RingBuffer.h instantiated with a lifetime-tracking class type (identity travels with the bytes, registry of live / moved-from / destroyed ids, raw storage is nondeterministic): '
        'after every operation from an arbitrary valid state and after destruction, exactly the logically removed elements are destroyed, once; no destructor/assignment touches raw storage; no element and no heap block is leaked; '
        'all CBMC pointer/bounds checks hold. Capacities 1..3 (quick) / 1..5 (thorough). Counterexamples replayed under ASan/LSan on the g++ build.',
   note=TB + 'moved-from shells left by pop are tolerated; allocation failure out of scope; capacities above the bound outside the claim.',
   technique='SAT-based bounded model checking (CBMC) of clang-lowered RingBuffer<Tracked>; 1-step induction + destruction, ghost lifetime registry', design='4/C09'),
 'C14': dict(
   text='Bounded model checking of the real Array.h for int, unsigned char and a lifetime-tracking class type: every constructor (pointer+length copy/adopt, initializer list, size, size+value, default) and one step '
        '(copy/move construct and assign, self-assign, swap, both resize overloads, element write) from an arbitrary state of length n (all values symbolic), then destruction; contents, deep-copy independence, '
        'exact construction/destruction counts, no leak, CBMC bounds/pointer checks. Lengths 0..3 (quick) / 0..5 (thorough). Counterexamples replayed under ASan/LSan on the g++ build.',
   note=TB + 'allocation failure out of scope; realloc(p,0) modelled as a zero-size block.',
   technique='SAT-based bounded model checking (CBMC) of clang-lowered Array<T>; ghost lifetime registry', design='4/C14'),
 'C05': dict(
   text='Bounded model checking of the real Subject/Subscription/Observer/EternalObserver/ObserverAutoPtr/ObserverFactory headers compiled against a small model STL: for every operation skeleton (kinds+targets of subscribe, '
        'unsubscribe via handle or subject, mute, unmute, invalidate, notify round, stale/foreign/default handle) up to the stated length over <= 4 observers, a CBMC query decides over all mute flags, argument values, '
        'payloads and handle-moved bits that deliveries are exactly the expected ones in order with the passed values, handles report validity/mute state, bad handles are rejected with invalid_argument leaving the '
        'Subject unchanged, and every observer callable is destroyed exactly once. Skeletons are enumerated (cube-and-conquer), data is solved for.',
   note=TB + 'model STL in /verif/stl (forward_list, set, function, unique_ptr) is environment, not code under test; exceptions lowered to a hook (no unwinding); skeleton length and observer count bounded.',
   technique='SAT-based bounded model checking (CBMC) per operation skeleton (cube) of clang-lowered Subject code over a model STL', design='4/C05'),
 'C10': dict(
   text='Bounded model checking of the real Subject headers with callbacks that unsubscribe themselves or others, subscribe new observers, mute/unmute, invalidate, or call notify again (depth 1) during a round: '
        'for every cube (1..3 observers, action kind/target/firing round per callback, initial mute flags where they decide whether a shape-changing action runs) CBMC checks the call log against a reference simulation of the '
        'round (removed before turn => skipped, added => next round, round continues), handle validity, exact destruction of callables, and use-after-free/bounds on every observer object; argument values (and mute flags '
        'of shape-neutral cubes) are symbolic. Counterexamples replayed under ASan on the g++ build.',
   note=TB + 'model STL; cubes enumerate everything that changes the heap shape (CBMC cannot keep heap shapes symbolic), so the solver decides over data only; >3 initial observers, nesting >1 and multi-action callbacks are outside.',
   technique='SAT-based bounded model checking (CBMC) per callback-action cube of clang-lowered Subject code, reference-simulation oracle', design='4/C10'),
 'C16': dict(
   text='Bounded model checking of the real Observable.h (+Subject stack) for int, short (incl. *=, /=), float with a tolerance comparator, and a model std::string: for every operator sequence up to the stated length, '
        '1-2 subscribers and an optional unsubscribe, CBMC decides over the initial value and every operand that subscribers are notified exactly when the Eq says the value changed (always for ++/--), once each, by reference '
        'to the stored post-operation value, that an Eq-equal assignment leaves the stored bits untouched, and that value() equals a shadow variable updated with the same C++ operator.',
   note=TB + 'value ranges bounded so that the documented no-overflow precondition holds; float *= and /= not encoded; string instance uses the fixed-capacity model string with concrete operand lengths.',
   technique='SAT-based bounded model checking (CBMC) per operator-sequence cube of clang-lowered Observable code, symbolic operands', design='4/C16'),
 'C06': dict(
   text='Bounded model checking of the real SubjectRouter.h/.cpp, RoutingKey*, RoutingLevelView and the Subject stack (and the same harness on ConcurrentSubjectRouter from one thread): for every cube (router class, signature '
        '(), (int), (const S&), (S by value), <=2 subscription keys of depth <=2 over {a,b}, every pattern structure of depth <=2 over {a, b, regex, regex, .*}, optional unsubscribe/invalidate) a CBMC query decides over '
        'every regex truth table ("any regex") and argument value that exactly the matching observers are invoked once with the passed value (intact copies for by-value class types) and that the return value counts '
        'the matched keys holding a subject. Type-mismatched indirect calls (Subject<T> used as Subject<T&>) are assertions. Counterexamples replayed natively (real std::regex built from the truth table, UBSan/ASan).',
   note=TB + 'std::regex is an arbitrary predicate over a finite name universe; model map/vector/variant/string; key depth, names and subscription count bounded.',
   technique='SAT-based bounded model checking (CBMC) per (subscriptions, pattern-structure) cube of clang-lowered router code; symbolic regex truth table', design='4/C06'),
 'C13': dict(
   text='Same encoding as C06 with shrink/exists/depth: for every cube (<=2 subscriptions of which one may be dead by unsubscribe or lazy removal, shrink pattern with a concrete truth table for its regexes, probe pattern with '
        'symbolic regexes) CBMC decides that delivery to the probe is identical before and after shrink, that exists() on every concrete key equals a prefix-closed model of the stored keys in which shrink erases, bottom-up, '
        'exactly the empty children of nodes visited by the pattern (never a key with a live subscription at or below), that a full-depth wildcard shrink leaves no dead branch, and that exists(pattern) and depth() agree with the model.',
   note=TB + 'shrink-pattern regex semantics enumerated (they change the heap shape); probe regex semantics symbolic; depth <= 2, names {a,b}.',
   technique='SAT-based bounded model checking (CBMC) per (subscriptions, dead set, shrink pattern) cube; model of stored keys as oracle', design='4/C13'),
}
REASON_WIP = 'check not built yet (work in progress, see DESIGN.md section 7)'
m = {"version": 1, "setup_cmd": "./vf setup",
     "hooks": {"guard": "TULZ_VERIF", "enable": "no source hooks are needed: harness translation units reach private state with '#define private public' around the tulz header; checks compile /repo's working tree directly",
               "baseline_off_cmd": "cmake -G Ninja -B /repo/_build -S /repo >/dev/null && cmake --build /repo/_build >/dev/null && ctest --test-dir /repo/_build -j8 --timeout 900",
               "source_commits": [], "add_only": True},
     "engines": [{"name": "ll2c+cbmc", "path": "vflib/", "serves_properties": sorted(CHECKS), "kind_free_text": "clang-14 LLVM IR -> C translator (vflib/ll2c.py) + CBMC 6.11 bounded model checker; native replay of counterexamples with g++/ASan"}],
     "checks": [], "not_applicable": []}
for i in ids:
    if i in CHECKS:
        c = CHECKS[i]
        m['checks'].append({"property_id": i, "quick_cmd": "./vf check %s --tier quick" % i, "thorough_cmd": "./vf check %s --tier thorough" % i,
                            "evidence_file": "evidence/%s.json" % i, "replay_cmd_template": "./vf check %s --replay {path}" % i, "engine": "ll2c+cbmc",
                            "level_claimed": {"category": "model_checking", "text": c['text'], "design_ref": c['design']}, "level_note": c['note'], "technique": c['technique']})
    else:
        m['not_applicable'].append({"property_id": i, "reason": REASON_WIP})
json.dump(m, open(os.path.join(V, 'MANIFEST.json'), 'w'), indent=1)
print('checks:', sorted(CHECKS), 'n/a:', len(m['not_applicable']))

#!/usr/bin/env python3
"""regenerates MANIFEST.json from the table below (kept in one place so that it is always valid)"""
import json, os
V = os.path.dirname(os.path.dirname(os.path.abspath(__file__)))
ids = [json.loads(l)['id'] for l in open(os.path.join(V, 'properties.jsonl'))]
TB = 'clang-14 front end and -O1 pipeline; ll2c IR->C translator; CBMC 6.11 (MiniSat); runtime models in /verif/rt; '
CHECKS = {
 'C04': dict(
   text='Bounded model checking of the real RingBuffer.h (clang IR -> C -> CBMC): one inductive step from an ARBITRARY valid state (head position, size, contents symbolic) for every operation kind, '
        'plus the constructor base cases, compared with an array model of a bounded deque. Covers every history within the capacity bound (quick: capacities 1..4, thorough 1..6), both overwrite modes. '
        'Counterexamples are replayed on the g++/libstdc++ build under ASan before being reported.',
   note=TB + 'real libstdc++ <iterator>/<algorithm>; CBMC built-in malloc/realloc/memcpy; capacities above the bound, resize(0) and allocation failure are outside the claim.',
   technique='SAT-based bounded model checking (CBMC) of clang-lowered RingBuffer code; 1-step induction over a symbolic pre-state', design='4/C04'),
 'C09': dict(
   text='Same inductive-step encoding of the real RingBuffer.h instantiated with a lifetime-tracking class type (identity travels with the bytes, registry of live / moved-from / destroyed ids, raw storage is nondeterministic): '
        'after every operation from an arbitrary valid state and after destruction, exactly the logically removed elements are destroyed, once; no destructor/assignment touches raw storage; no element and no heap block is leaked; '
        'all CBMC pointer/bounds checks hold. Capacities 1..3 (quick) / 1..5 (thorough). Counterexamples replayed under ASan/LSan on the g++ build.',
   note=TB + 'moved-from shells left by pop are tolerated; allocation failure out of scope; capacities above the bound outside the claim.',
   technique='SAT-based bounded model checking (CBMC) of clang-lowered RingBuffer<Tracked>; 1-step induction + destruction, ghost lifetime registry', design='4/C09'),
 'C14': dict(
   text='Bounded model checking of the real Array.h for int, unsigned char and a lifetime-tracking class type: every constructor (pointer+length copy/adopt, initializer list, size, size+value, default) and one step '
        '(copy/move construct and assign, self-assign, swap, both resize overloads, element write) from an arbitrary state of length n (all values symbolic), then destruction; contents, deep-copy independence, '
        'exact construction/destruction counts, no leak, CBMC bounds/pointer checks. Lengths 0..3 (quick) / 0..5 (thorough). Counterexamples replayed under ASan/LSan on the g++ build.',
   note=TB + 'allocation failure out of scope; realloc(p,0) modelled as a zero-size block.',
   technique='SAT-based bounded model checking (CBMC) of clang-lowered Array<T>; ghost lifetime registry', design='4/C14'),
 'C05': dict(
   text='Bounded model checking of the real Subject/Subscription/Observer/EternalObserver/ObserverAutoPtr/ObserverFactory headers compiled against a small model STL: for every operation skeleton (kinds+targets of subscribe, '
        'unsubscribe via handle or subject, mute, unmute, invalidate, notify round, stale/foreign/default handle) up to the stated length over <= 4 observers, a CBMC query decides over all mute flags, argument values, '
        'payloads and handle-moved bits that deliveries are exactly the expected ones in order with the passed values, handles report validity/mute state, bad handles are rejected with invalid_argument leaving the '
        'Subject unchanged, and every observer callable is destroyed exactly once. Skeletons are enumerated (cube-and-conquer), data is solved for.',
   note=TB + 'model STL in /verif/stl (forward_list, set, function, unique_ptr) is environment, not code under test; exceptions lowered to a hook (no unwinding); skeleton length and observer count bounded.',
   technique='SAT-based bounded model checking (CBMC) per operation skeleton (cube) of clang-lowered Subject code over a model STL', design='4/C05'),
 'C10': dict(
   text='Bounded model checking of the real Subject headers with callbacks that unsubscribe themselves or others, subscribe new observers, mute/unmute, invalidate, or call notify again (depth 1) during a round: '
        'for every cube (1..3 observers, action kind/target/firing round per callback, initial mute flags where they decide whether a shape-changing action runs) CBMC checks the call log against a reference simulation of the '
        'round (removed before turn => skipped, added => next round, round continues), handle validity, exact destruction of callables, and use-after-free/bounds on every observer object; argument values (and mute flags '
        'of shape-neutral cubes) are symbolic. Counterexamples replayed under ASan on the g++ build.',
   note=TB + 'model STL; cubes enumerate everything that changes the heap shape (CBMC cannot keep heap shapes symbolic), so the solver decides over data only; >3 initial observers, nesting >1 and multi-action callbacks are outside.',
   technique='SAT-based bounded model checking (CBMC) per callback-action cube of clang-lowered Subject code, reference-simulation oracle', design='4/C10'),
 'C16': dict(
   text='Bounded model checking of the real Observable.h (+Subject stack) for int, short (incl. *=, /=), float with a tolerance comparator, and a model std::string: for every operator sequence up to the stated length, '
        '1-2 subscribers and an optional unsubscribe, CBMC decides over the initial value and every operand that subscribers are notified exactly when the Eq says the value changed (always for ++/--), once each, by reference '
        'to the stored post-operation value, that an Eq-equal assignment leaves the stored bits untouched, and that value() equals a shadow variable updated with the same C++ operator.',
   note=TB + 'value ranges bounded so that the documented no-overflow precondition holds; float *= and /= not encoded; string instance uses the fixed-capacity model string with concrete operand lengths.',
   technique='SAT-based bounded model checking (CBMC) per operator-sequence cube of clang-lowered Observable code, symbolic operands', design='4/C16'),
 'C06': dict(
   text='Bounded model checking of the real SubjectRouter.h/.cpp, RoutingKey*, RoutingLevelView and the Subject stack (and the same harness on ConcurrentSubjectRouter from one thread): for every cube (router class, signature '
        '(), (int), (const S&), (S by value), <=2 subscription keys of depth <=2 over {a,b}, every pattern structure of depth <=2 over {a, b, regex, regex, .*}, optional unsubscribe/invalidate) a CBMC query decides over '
        'every regex truth table ("any regex") and argument value that exactly the matching observers are invoked once with the passed value (intact copies for by-value class types) and that the return value counts '
        'the matched keys holding a subject. Type-mismatched indirect calls (Subject<T> used as Subject<T&>) are assertions. Counterexamples replayed natively (real std::regex built from the truth table, UBSan/ASan).',
   note=TB + 'std::regex is an arbitrary predicate over a finite name universe; model map/vector/variant/string; key depth, names and subscription count bounded.',
   technique='SAT-based bounded model checking (CBMC) per (subscriptions, pattern-structure) cube of clang-lowered router code; symbolic regex truth table', design='4/C06'),
 'C13': dict(
   text='Same encoding as C06 with shrink/exists/depth: for every cube (<=2 subscriptions of which one may be dead by unsubscribe or lazy removal, shrink pattern with a concrete truth table for its regexes, probe pattern with '
        'symbolic regexes) CBMC decides that delivery to the probe is identical before and after shrink, that exists() on every concrete key equals a prefix-closed model of the stored keys in which shrink erases, bottom-up, '
        'exactly the empty children of nodes visited by the pattern (never a key with a live subscription at or below), that a full-depth wildcard shrink leaves no dead branch, and that exists(pattern) and depth() agree with the model.',
   note=TB + 'shrink-pattern regex semantics enumerated (they change the heap shape); probe regex semantics symbolic; depth <= 2, names {a,b}.',
   technique='SAT-based bounded model checking (CBMC) per (subscriptions, dead set, shrink pattern) cube; model of stored keys as oracle', design='4/C13'),

 'C01': dict(
   text='The real Resource.cpp (+ReadLock/WriteLock) is compiled to LLVM IR, all may-yield callees are inlined, and ll2c turns every thread into a resumable step function; a scheduler written in C executes K steps where the thread '
        'chosen at each step (and up to 2 spurious wake-ups) is a nondeterministic value. For every multiset of thread programs (2-3 threads x 1 lock/unlock pair, raw calls and guard classes, plus the (WW,R,R) slow-waker scenario of the '
        'property text) CBMC decides over every such schedule that writers==0 || (writers==1 && readers==0) at each acquisition and that tulz\'s own assert(m_activeOp == opType) holds. Counterexample schedules are '
        'replayed on the real g++ build with a schedule shim (cooperative pthreads following the recorded thread choices).',
   note=TB + 'sequential consistency; context switches at synchronisation operations (complete for race-free code; race freedom is C15); model std::deque/mutex/condition_variable; thread programs enumerated, schedule solved for; bounded threads and schedule length.', technique='SAT-based bounded model checking (CBMC) of the sequentialised real Resource.cpp; the schedule is a solver variable', design='4/C01'),
 'C02': dict(
   text='Same sequentialised encoding of the real Resource.cpp with spurious wake-ups disabled and a deadlock detector (before each step some unfinished thread must be enabled) plus a BOUND assertion that all threads finish within K steps: '
        'for 3 threads x 1 pair (every R/W multiset with a writer, first schedule choice as cube) and for 2 threads + an idle-checker thread that afterwards must obtain write, read, read without ever parking, CBMC decides over every schedule. '
        'Found and confirmed (shim replay on the real build) the lost wake-up of the original code; passes on the repaired code.',
   note=TB + 'sequential consistency; context switches at synchronisation operations (complete for race-free code; race freedom is C15); model std::deque/mutex/condition_variable; thread programs enumerated, schedule solved for; bounded threads and schedule length.', technique='SAT-based bounded model checking (CBMC) of the sequentialised real Resource.cpp with deadlock detector; schedule as solver variable', design='4/C02'),
 'C03': dict(
   text='Same encoding with ghost events issued / parked (first condition-variable wait of the call) / granted: at every grant CBMC checks, over every schedule of K steps, that no request that was already parked before this one was issued '
        'is still ungranted, except two reads with no write request parked between them (batch). 2-3 threads x 1 pair, every R/W multiset.',
   note=TB + 'sequential consistency; context switches at synchronisation operations (complete for race-free code; race freedom is C15); model std::deque/mutex/condition_variable; thread programs enumerated, schedule solved for; bounded threads and schedule length.', technique='SAT-based bounded model checking (CBMC) of the sequentialised real Resource.cpp with an arrival/grant log; schedule as solver variable', design='4/C03'),
 'C12': dict(
   text='Same encoding: (a) reader-only programs (2 threads x 2 pairs, 3 threads x 1 pair): no reader ever reaches a condition-variable wait, over every schedule; (b) a writer that holds the lock until k readers are parked behind it, then '
        'the readers rendezvous on a barrier inside the read section: the deadlock detector shows they are admitted together, over every schedule.',
   note=TB + 'sequential consistency; context switches at synchronisation operations (complete for race-free code; race freedom is C15); model std::deque/mutex/condition_variable; thread programs enumerated, schedule solved for; bounded threads and schedule length.', technique='SAT-based bounded model checking (CBMC) of the sequentialised real Resource.cpp; schedule as solver variable', design='4/C12'),
 'C20': dict(
   text='Sequentialised real Thread.h/Thread.cpp with a model std::thread (callable decay-copied to the heap, run on a new scheduled thread) and a stack-reuse model (an automatic object whose lifetime ended holds arbitrary bytes): for a '
        'function pointer, a small closure, a large closure and a Runnable, CBMC decides over every schedule of starter vs. new thread that the callable is invoked exactly once on a live object with intact state and the caller\'s lvalue argument, '
        'isFinished() only after the callable returned, join() only after that, Runnable destroyed once, nothing leaked. Counterexamples replayed with the schedule shim under ASan (stack-use-after-scope).',
   note=TB + 'one starter + one started thread; context switches at synchronisation operations and harness yields; lifetime.end modelled as havoc.',
   technique='SAT-based bounded model checking (CBMC) of the sequentialised real Thread code; schedule as solver variable; lifetime-end havoc', design='4/C20'),
 'C11': dict(
   text='Compositional. Premise 1 (this check): lock discipline of the real ConcurrentSubjectRouter — the translator reports every load/store of the operation to a monitor; with the real Resource.cpp running single-threaded the monitor knows '
        'in which mode the Resource is held and asserts that router memory (the SubjectRouter sub-object and every heap block allocated in write mode) is read only with the Resource held and written only in write mode, for notify, subscribe, '
        'shrink, exists, depth and USubscription::unsubscribe over <=2 subscriptions and 6 pattern shapes (regex truth table symbolic). Premise 2: C01-C03 on the same Resource.cpp. Conclusion: operations are serialisable, so with C05/C06 a notify reaches '
        'the observers subscribed at one instant and nothing is delivered after unsubscribe() returned. Counterexamples are confirmed on the real build by running the failing operation against a mixed workload under ThreadSanitizer.',
   note=TB + 'a direct multi-thread exploration of router+lock is beyond the engine budget (stated in DESIGN.md); callbacks calling back into the router and mute/unmute are outside the property.',
   technique='SAT-based bounded model checking (CBMC) of the instrumented router code: per-access lock-mode monitor; composition with C01', design='4/C11'),

 'C15': dict(
   text='Data-race freedom of the three components: (a) rwp::Resource + guards: the sequentialised, access-instrumented real Resource.cpp runs under a happens-before monitor (vector clocks for mutex release->acquire and '
        'thread start; ONE watched byte chosen nondeterministically among all bytes of the Resource object) and CBMC decides over every schedule of 2-3 threads and every watched byte that no two conflicting accesses are unordered; '
        '(b) ConcurrentSubjectRouter: the lock-discipline check of C11 (every access to router memory happens with the Resource held in the right mode) which, with C01, orders every pair of conflicting accesses. '
        '(c) ThreadPool/Thread: the same happens-before monitor (plus thread join and atomics as synchronisation) on the sequentialised, access-instrumented real ThreadPool.cpp/Thread.cpp: owner programs start;stop and '
        'start;getters;update;stop with expiring workers (timeout 0, arbitrary clock), every schedule prefix of K steps, watched byte anywhere in the pool object, the worker / runnable / thread-state objects and the tasks. '
        'Races are confirmed on the real build with ThreadSanitizer (stress programs) before being reported.',
   note=TB + 'sequential consistency; accesses are those of the -O1 IR; Data-race freedom claimed for 2-3 threads, two owner programs of the pool and bounded schedule prefixes (quick K=12, thorough K=22-24).',
   technique='SAT-based bounded model checking (CBMC) with a vector-clock happens-before monitor on instrumented accesses; lock-discipline monitor for the router', design='4/C15 + 8.2'),
 'C17': dict(
   text='Bounded model checking of the real File.cpp, Path.cpp, Exception.cpp and Array.h over a POSIX stdio/dirent model (rt/rt_fs.c): for every cube (write mode, length 0..3 (thorough 6), split into two write calls, write overload, '
        'pre-existing content, read path read()/readStr()/read(buffer), binary/text, error scenarios, seek/tell/size sequence) CBMC decides over all byte values that what is read back is what was written (after the existing bytes for append, '
        'alone for write), size()/tell() are right, missing file => Exception(NotFound), directory => Exception(NotFile), and no stream or heap block is leaked.',
   note=TB + 'the model IS the POSIX contract as implemented by glibc/Linux (fopen(dir,"r") succeeds, text == binary); the kernel, glibc buffering and contents longer than the bound are outside, so "multi-megabyte" is not claimed; counterexamples are model-level.',
   technique='SAT-based bounded model checking (CBMC) of clang-lowered File/Path code over a POSIX file-system model; symbolic file contents', design='4/C17'),
 'C18': dict(
   text='Bounded model checking of the real Path.cpp and DirectoryVisitor.cpp: (a) string part — d and n are byte strings of cube-given lengths 0..4 (thorough 6) with every byte symbolic: name(join(d,n)) == n, parent(join(d,n)) == d minus one '
        'trailing separator, join(d, absolute) == absolute, totality on every string incl. "", "/", "//" (no out-of-range erase); (b) file-system part over the POSIX model: for every tree shape of <= 2 (thorough 3) nodes with names a, b, "c c" and '
        'symbolic file sizes/contents: exists/isFile/isDirectory, size() = sum of the files beneath, listChildren() = every entry once without . and .., DirectoryVisitor restores the working directory, no handle leaked.',
   note=TB + 'POSIX model instead of the real kernel; model std::string with [basic.string] semantics; directory names ending in a backslash excluded (join does not treat it as a separator on Linux).',
   technique='SAT-based bounded model checking (CBMC) of clang-lowered Path code; symbolic path bytes; POSIX file-system model', design='4/C18'),
 'C19': dict(
   text='Bounded model checking of the real LocaleInfo.cpp with its full tables (224 languages, 249 countries): one query per input length decides over EVERY string of that length (each byte symbolic) that no access leaves its buffer '
        '(explicit length preconditions on memcpy/memset, bounds checks on every dereference) and — in the "full" queries — that the result is either the documented en/GB fallback with error set or a table hit whose pointers are table entries '
        'naming the input\'s language and country (an uninitialised field is a nondeterministic value and fails the membership checks). Quick: lengths 5 (full) and 66 (safety, parts >= 64 bytes); thorough adds 3,6,7,9 (full) and 12,40,70 (safety).',
   note=TB + 'model std::list (capacity 8); string.h functions as plain loops; per-length claims are complete for that length, other lengths are outside.',
   technique='SAT-based bounded model checking (CBMC) of clang-lowered LocaleInfo::get with full tables; every input byte symbolic', design='4/C19'),
'C08': dict(
   text='The real ThreadPool.cpp/Thread.cpp/Runnable are compiled to LLVM IR, inlined and turned into resumable step functions (owner thread and worker threads have separate roots); a scheduler written in C executes K steps where the thread '
        'chosen at each step is a solver variable. Scheduling points: every synchronisation operation, every access to the unsynchronised flag ThreadPool::m_isRunning (and Thread::m_isFinished), and the window between evaluating the wait '
        'predicate and blocking (racy configuration). For owner programs start / stop / restart (always ending in stop()) CBMC decides over every schedule: no deadlock (a join or wait that can never be enabled is reported); '
        'after stop(): getThreadCount()==0, no task running, every submitted task destroyed exactly once; a later start() works; worker count <= maximum. Quick tier: the racy configuration over every schedule prefix of 20 steps, plus the '
        'sync-only configuration (side condition: no data race, C15) with a BOUND assertion that 20 steps suffice for EVERY schedule to terminate, i.e. stop() returns on all of them; thorough adds complete racy runs (K=26), restart, update and two workers. '
        'Counterexample schedules are replayed on the real g++ build with the schedule shim (real sources with a yield hook at the same racy accesses).',
   note=TB + 'kissat as SAT back end; one worker (quick) / two workers (thorough), <= 2 tasks; non-expiring workers; sequential consistency; one static buffer per new-site and ghost-state (not pointer-check) detection of use after delete; pointer checks off for these units (bounds and division on).',
   technique='SAT-based bounded model checking (CBMC + kissat) of the sequentialised real ThreadPool/Thread code; schedule as solver variable; deadlock detector', design='4/C08 + 8.4'),
 'C07': dict(
   text='Same sequentialised encoding of the real ThreadPool.cpp/Thread.cpp as C08 with instrumented tasks (ghost counters entered/exited/destroyed per task, canary, executing thread, global order): for owner programs '
        'start,start,wait / start,clear,start / start,stop,start,wait (always ending in stop()) CBMC decides over every schedule of K steps that a task is executed at most once, destroyed exactly once and never before or during its execution, '
        'executed exactly once when the owner waits for it without stop/clear (else the deadlock detector fires), that no task starts after stop() returned, and that a single worker runs tasks in submission order.',
   note=TB + 'kissat as SAT back end; quick: one worker, 2 tasks, schedule prefixes of K steps; thorough adds complete runs and two workers; non-expiring workers; sequential consistency; static new-sites; pointer checks off (ghost state instead).',
   technique='SAT-based bounded model checking (CBMC + kissat) of the sequentialised real ThreadPool/Thread code with ghost task state; schedule as solver variable', design='4/C07 + 8.4'),
}
REASON_WIP = 'check not built yet'
NA = {
}
m = {"version": 1, "setup_cmd": "./vf setup",
     "hooks": {"guard": "TULZ_VERIF", "enable": "no source hooks are needed: harness translation units reach private state with '#define private public' around the tulz header; checks compile /repo's working tree directly",
               "baseline_off_cmd": "cmake -G Ninja -B /repo/_build -S /repo >/dev/null && cmake --build /repo/_build >/dev/null && ctest --test-dir /repo/_build -j8 --timeout 900",
               "source_commits": [], "add_only": True},
     "engines": [{"name": "ll2c+cbmc", "path": "vflib/", "serves_properties": sorted(CHECKS), "kind_free_text": "clang-14 LLVM IR -> C translator (vflib/ll2c.py) + CBMC 6.11 bounded model checker; native replay of counterexamples with g++/ASan"}],
     "checks": [], "not_applicable": []}
for i in ids:
    if i in CHECKS:
        c = CHECKS[i]
        m['checks'].append({"property_id": i, "quick_cmd": "./vf check %s --tier quick" % i, "thorough_cmd": "./vf check %s --tier thorough" % i,
                            "evidence_file": "evidence/%s.json" % i, "replay_cmd_template": "./vf check %s --replay {path}" % i, "engine": "ll2c+cbmc",
                            "level_claimed": {"category": "model_checking", "text": c['text'], "design_ref": c['design']}, "level_note": c['note'], "technique": c['technique']})
    else:
        m['not_applicable'].append({"property_id": i, "reason": NA.get(i, REASON_WIP)})
json.dump(m, open(os.path.join(V, 'MANIFEST.json'), 'w'), indent=1)
print('checks:', sorted(CHECKS), 'n/a:', len(m['not_applicable']))

#!/bin/bash
# creates a scratch git worktree of /repo (HEAD) with a relocated copy of the build directory, for seeded-change experiments
set -e
d=/tmp/seed/$1
rm -rf "$d"; git -C /repo worktree prune
git -C /repo worktree add -q --detach "$d" HEAD
cp -a /repo/_build "$d/_build"
grep -rlI "/repo" "$d/_build" --include="*.txt" --include="*.ninja" --include="*.cmake" --include="*.make" 2>/dev/null | xargs sed -i "s#/repo#$d#g"
mkdir -p "$d/OUT"
echo "$d"

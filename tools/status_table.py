#!/usr/bin/env python3
"""prints a markdown status table (per property: tier, queries, assertions, wall, slowest query) from the evidence files of the last runs"""
import json, os, glob
V = os.path.dirname(os.path.dirname(os.path.abspath(__file__)))
print('| id | tier | queries (discharged/planned) | assertions | SAT solver s | wall s | slowest query | replays confirmed | broken |')
print('|---|---|---|---|---|---|---|---|---|')
for f in sorted(glob.glob(os.path.join(V, 'evidence', 'C*.json'))):
    e = json.load(open(f))
    c = e['coverage']
    sl = c.get('slowest_queries') or [['-', 0]]
    print('| %s | %s | %d/%d | %d | %.0f | %.0f | %s (%.0f s) | %s | %d |' % (e['property_id'], e['tier'], c['queries_discharged'], c['queries_planned'], c['assertions_checked'], c['solver_seconds_total'],
                                                                  e.get('wall_s', 0), sl[0][0], sl[0][1], c.get('counterexamples_replayed_on_real_build', 0), len(c.get('broken', []))))

// forced include of every model-STL translation unit: exception lowering (tulz only throws, never catches)
#pragma once
#include <stddef.h>
#include <stdint.h>
#include <type_traits>
#include <utility>
// every real libstdc++ header that may be reached later and mentions the keyword `throw` is included before the macro below
#include <new>
#include <exception>
#include <initializer_list>
#include <limits>
#include <tuple>
#include <algorithm>
#include <numeric>
#include <iterator>
#include <concepts>
#include <compare>
#include <bits/chrono.h>
#include <bits/stl_function.h>
#include <bits/invoke.h>
#include <string.h>
#include <stdio.h>
#include <stdlib.h>
#include <assert.h>
extern "C" {
void __vf_throw(int kind, int code) __attribute__((noreturn));   // kind: 1 tulz::Exception (code = type), 2 std::invalid_argument, 3 std::out_of_range, 4 other
void __vf_bound_exceeded(const char *what) __attribute__((noreturn));
void __vf_bad_function_call(void) __attribute__((noreturn));
}
namespace vf {
struct thrower {};
template<class E> constexpr int vf_exc_kind(const E &) { return 4; }   // overloads for specific types live in the type's namespace (found by ADL)
template<class E> [[noreturn]] inline void operator<<=(thrower, const E &e) {
  int code = 0, kind = vf_exc_kind(e);
  if constexpr (requires { e.type; e.message; }) { code = e.type; kind = 1; }   // tulz::Exception
  __vf_throw(kind, code);
}
}
#define throw ::vf::thrower{} <<=

// C07 / C08: tulz::ThreadPool. Owner thread program (start / clear / stop / restart) comes from the macro OWNER (a string of ops);
// the schedule is symbolic; accesses to the racy flags m_isRunning / m_isFinished are scheduling points ("racy" configuration).
#ifdef VF_NATIVE
// real libstdc++ headers must not be parsed under `#define private public`
#include <chrono>
#include <list>
#include <tuple>
#include <type_traits>
#include <mutex>
#include <condition_variable>
#include <thread>
#include <tulz/threading/Runnable.h>
#endif
#define private public
#include <tulz/threading/ThreadPool.h>
#include <tulz/threading/Thread.h>
#undef private
#include "vf_thr.h"
using namespace tulz;
// marker functions: the fields they address are declared racy (every access becomes a scheduling point)
// (only plain fields: an atomic field has its own scheduling point per operation, a second one would also misalign the native replay)
template<class T> static inline void *racy_addr(T *) { return nullptr; }
static inline void *racy_addr(bool *p) { return p; }
extern "C" void *__vf_racy_field_pool_running(ThreadPool *p) { return racy_addr(&p->m_isRunning); }
extern "C" void *__vf_racy_field_thread_finished(Thread *t) { return racy_addr(&t->m_isFinished); }
#ifndef NTASK
#define NTASK 2
#endif
#ifndef MAXTHREADS
#define MAXTHREADS 1
#endif
static int entered[NTASK], exited[NTASK], destroyed[NTASK], runner[NTASK];
static int order[NTASK], norder;
static int done_count;    // tasks that have finished running (the owner may wait for it, like user code waiting for its results)
static int stop_returned, cleared_or_stopped_before[NTASK];
struct Task : Runnable {
  int id; int canary = 0x5a5a;
  explicit Task(int i) : id(i) {}
  void run() override {
    __vf_check(canary == 0x5a5a && destroyed[id] == 0, "C07: a task is never run after (or while) it is destroyed");
    __vf_check(entered[id] == 0, "C07: a task is executed at most once");
    __vf_check(!stop_returned, "C07: no task starts running after stop() has returned");
#if MAXTHREADS == 1
    // single worker: when a task starts, every task submitted before it has already been started or has been destroyed unrun (clear/stop)
    for (int j = 0; j < NTASK; j++) if (j < id) __vf_check(entered[j] != 0 || destroyed[j] != 0, "C07: with a single worker tasks run in submission order");
#endif
    entered[id]++; runner[id] = __vf_self(); order[norder++] = id;
    __vf_yield();                                  // the task takes a while: other threads may run
    exited[id]++; done_count++;
  }
  ~Task() override {
    __vf_check(entered[id] == exited[id], "C07: a task is never destroyed during its own execution");
    __vf_check(destroyed[id] == 0, "C07: a task is destroyed exactly once");
    canary = 0xdead; destroyed[id]++;
  }
};
extern "C" void vf_on_park(unsigned) {}
#ifdef HB_MONITOR
// C15: every byte of the pool object and of every object the pool allocates (worker threads, their runnables, thread state) and of the
// submitted tasks is a candidate for the watched location of the happens-before monitor
extern "C" void __vf_hb_track(void *p);
extern "C" void __vf_new_hook(void *p) { __vf_hb_track(p); }
#endif
static ThreadPool *g_pool;
// owner program: OP_k in {1: start(task), 2: clear(), 3: stop(), 4: wait until all submitted tasks have run, 0: nothing}
#ifndef OP0
#define OP0 1
#endif
#ifndef OP1
#define OP1 1
#endif
#ifndef OP2
#define OP2 3
#endif
#ifndef OP3
#define OP3 0
#endif
static int next_task;
template<int OP> static inline void owner_op() {
  if constexpr (OP == 1) { int id = next_task++; g_pool->start(new Task(id)); __vf_check(g_pool->getThreadCount() <= MAXTHREADS, "C08: the number of worker threads never exceeds the configured maximum"); }
  else if constexpr (OP == 2) { g_pool->clear(); }
  else if constexpr (OP == 5) { g_pool->update(); __vf_check(g_pool->getThreadCount() <= MAXTHREADS, "C08: the number of worker threads never exceeds the configured maximum"); }
  else if constexpr (OP == 6) { (void) g_pool->getActiveThreadCount(); (void) g_pool->getThreadCount(); (void) g_pool->isRunning(); (void) g_pool->getMaxThreadCount(); (void) g_pool->getExpiryTimeout(); }
  else if constexpr (OP == 4) {   // wait until every task submitted so far has run: without stop()/clear() each must be executed exactly once (else: deadlock detector)
    __vf_wait_until(&done_count, next_task);
    for (int i = 0; i < NTASK; i++) if (i < next_task) __vf_check(entered[i] == 1 && exited[i] == 1, "C07: unless the pool is stopped or cleared first every task is executed exactly once");
    __vf_reach("all submitted tasks ran without stop/clear");
  }
  else if constexpr (OP == 3) {
    g_pool->stop(); stop_returned = 1;
    __vf_check(g_pool->getThreadCount() == 0, "C08: after stop() no worker thread is left");
    for (int i = 0; i < NTASK; i++) if (i < next_task) { __vf_check(entered[i] == exited[i], "C08: after stop() no task is running"); __vf_check(destroyed[i] == 1, "C08/C07: after stop() every submitted task (run or still queued) has been destroyed exactly once"); }
    stop_returned = 0;   // a later start() may run tasks again
  }
}
static ThreadPool pool;   // global: a local would live in a per-thread array of the resumable function
extern "C" void vf_thread(int) {
  g_pool = &pool;
#ifdef HB_MONITOR
  __vf_hb_track(&pool);
#endif
#ifndef EXPIRY
#define EXPIRY (-1)
#endif
  pool.setMaxThreadCount(MAXTHREADS); pool.setExpiryTimeout(EXPIRY);
  owner_op<OP0>(); owner_op<OP1>(); owner_op<OP2>(); owner_op<OP3>();
  // the program always ends with stop()
  g_pool->stop(); stop_returned = 1;
  __vf_check(pool.getThreadCount() == 0, "C08: after the final stop() no worker thread is left");
  for (int i = 0; i < NTASK; i++) if (i < next_task) {
    __vf_check(destroyed[i] == 1 && entered[i] == exited[i] && entered[i] <= 1, "C07: every task is executed at most once and destroyed exactly once");
  }
#if MAXTHREADS == 1
  for (int i = 1; i < NTASK; i++) if (i < norder) __vf_check(order[i - 1] < order[i], "C07: with a single worker tasks run in submission order");
#endif
  __vf_reach("owner finished");
}
extern "C" void vf_final(void) { }

// C04: one inductive step of RingBuffer<int, OW> from an arbitrary valid state of capacity CAP
//      (+ base cases: the constructors), compared with an array model of a bounded deque.
#include <cstddef>
#include <cstdlib>
#include <initializer_list>
#include <utility>
#include <algorithm>
#include <sys/types.h>
#define private public
#include <tulz/container/RingBuffer.h>
#undef private
#include "vf.h"
#ifndef CAP
#define CAP 4
#endif
#ifndef NEWCAP
#define NEWCAP 2
#endif
#ifndef OW
#define OW false
#endif
#define MX (CAP > NEWCAP ? CAP : NEWCAP)
struct Model {
  int e[MX + 1]; size_t n, cap;
  void push_back(int v) { if (n == cap) { for (size_t i = 1; i < n; i++) e[i - 1] = e[i]; e[n - 1] = v; } else e[n++] = v; }
  void push_front(int v) { if (n == cap) { for (size_t i = n - 1; i > 0; i--) e[i] = e[i - 1]; e[0] = v; } else { for (size_t i = n; i > 0; i--) e[i] = e[i - 1]; e[0] = v; n++; } }
  int pop_back() { return e[--n]; }
  int pop_front() { int v = e[0]; for (size_t i = 1; i < n; i++) e[i - 1] = e[i]; n--; return v; }
  void resize(size_t c) { if (n > c) n = c; cap = c; }
};
using RB = tulz::RingBuffer<int, OW>;
template<class B> static void same(B &rb, const Model &m) {
  __vf_check(rb.size() == m.n, "size() equals the model's");
  __vf_check(rb.capacity() == m.cap, "capacity() equals the model's");
  __vf_check(rb.empty() == (m.n == 0) && rb.full() == (m.n == m.cap), "empty()/full()");
  for (size_t i = 0; i < m.n; i++) __vf_check(rb[i] == m.e[i], "operator[] returns the model's element");
  size_t k = 0;
  for (int &v : rb) { __vf_check(k < m.n && v == m.e[k], "iteration yields the model's elements in order"); k++; }
  __vf_check(k == m.n, "iteration yields exactly size() elements");
  const B &crb = rb; k = 0;
  for (auto it = crb.cbegin(); it != crb.cend(); ++it) { __vf_check(k < m.n && *it == m.e[k], "const iteration"); k++; }
  __vf_check(k == m.n, "const iteration count");
  if (m.n) { __vf_check(rb.front() == m.e[0], "front()"); __vf_check(rb.back() == m.e[m.n - 1], "back()"); }
  // representation invariant (makes the step inductive)
  __vf_check(rb.m_pos >= 0 && (size_t)rb.m_pos < rb.m_capacity && rb.m_size <= rb.m_capacity && rb.m_data != nullptr, "representation invariant re-established");
}
// arbitrary valid state: every head position / wrap-around layout of capacity C
template<class B> static void arbitrary(B &rb, Model &m, size_t C) {
  size_t pos = __vf_nondet_ulong(), n = __vf_nondet_ulong();
  __vf_assume(pos < C && n <= C);
  rb.m_pos = pos; rb.m_size = n; m.n = n; m.cap = C;
  for (size_t i = 0; i < C; i++) if (i < n) { int v = __vf_nondet_int(); m.e[i] = v; rb.m_data[(pos + i) % C] = v; }
}
extern "C" void harness(void) {
#if defined(BASE)
  // base cases: constructors establish the invariant and the model's contents
  { RB rb(CAP); Model m; m.n = 0; m.cap = CAP; same(rb, m); __vf_reach("ctor(capacity)"); }
  { int a = __vf_nondet_int(), b = __vf_nondet_int(); RB rb({a, b}); Model m; m.n = 2; m.cap = 2; m.e[0] = a; m.e[1] = b; same(rb, m); __vf_reach("ctor(init-list)"); }
  { int a = __vf_nondet_int(); RB rb({a}, CAP); Model m; m.n = 1; m.cap = CAP; m.e[0] = a; same(rb, m); __vf_reach("ctor(init-list, capacity)"); }
#else
  RB rb(CAP); Model m;
  arbitrary(rb, m, CAP);
#ifdef OP
  const int op = OP;   // one operation kind per query (the solver still decides over every state and argument)
#else
  int op = __vf_nondet_int();
#endif
  int v = __vf_nondet_int();
  switch (op) {
    case 0: __vf_assume(OW || m.n < m.cap); { int &r = rb.push_back(v); m.push_back(v); __vf_check(&r == &rb.back() && r == v, "push_back returns a reference to the inserted element"); } __vf_reach("push_back"); if (m.n == m.cap && OW) __vf_reach("push_back (maybe overwriting)"); break;
    case 1: __vf_assume(OW || m.n < m.cap); { int &r = rb.push_front(v); m.push_front(v); __vf_check(&r == &rb.front() && r == v, "push_front returns a reference to the inserted element"); } __vf_reach("push_front"); break;
    case 2: __vf_assume(OW || m.n < m.cap); { int &r = rb.emplace_back(v); m.push_back(v); __vf_check(&r == &rb.back() && r == v, "emplace_back returns a reference to the inserted element"); } __vf_reach("emplace_back"); break;
    case 3: __vf_assume(OW || m.n < m.cap); { int &r = rb.emplace_front(v); m.push_front(v); __vf_check(&r == &rb.front() && r == v, "emplace_front returns a reference to the inserted element"); } __vf_reach("emplace_front"); break;
    case 4: __vf_assume(m.n > 0); { int a = rb.pop_back(), b = m.pop_back(); __vf_check(a == b, "pop_back returns the removed value"); } __vf_reach("pop_back"); break;
    case 5: __vf_assume(m.n > 0); { int a = rb.pop_front(), b = m.pop_front(); __vf_check(a == b, "pop_front returns the removed value"); } __vf_reach("pop_front"); break;
    case 6: {
      bool wrapped = m.n > 0 && rb.m_pos + m.n > CAP;
      rb.resize(NEWCAP); m.resize(NEWCAP);
      __vf_reach("resize");
#if CAP > 1
      if (wrapped) __vf_reach("resize of a wrapped layout");
#endif
    } break;
    case 7: { RB c(rb); same(c, m); same(rb, m); __vf_check(c == rb, "copy compares equal"); __vf_check(c.m_data != rb.m_data, "copy is deep"); __vf_reach("copy-construct"); } break;
    case 8: { RB c(1); c = rb; same(c, m); same(rb, m); __vf_reach("copy-assign"); } break;
    case 9: { RB c(std::move(rb)); same(c, m); __vf_reach("move-construct"); return; }
    case 10: { RB c(1); c = std::move(rb); same(c, m); __vf_reach("move-assign"); return; }
    case 11: { // operator== against a second arbitrary buffer (other overwrite mode, own layout)
      tulz::RingBuffer<int, !OW> o(NEWCAP); Model mo; arbitrary(o, mo, NEWCAP);
      bool eq = (m.n == mo.n); for (size_t i = 0; i < m.n && i < mo.n; i++) if (m.e[i] != mo.e[i]) eq = false;
      __vf_check((rb == o) == eq, "operator== is element-wise equality of the sequences");
      same(o, mo); __vf_reach("operator==");
    } break;
    case 12: { // self-assignment is a no-op
      RB &alias = rb; rb = alias; __vf_reach("self-assign");
    } break;
    default: __vf_assume(0);
  }
  same(rb, m);
#endif
}

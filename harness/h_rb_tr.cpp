// C09: element lifetimes of RingBuffer<Tracked, OW>: one inductive step from an arbitrary valid state + destruction
#include <cstddef>
#include <cstdlib>
#include <initializer_list>
#include <utility>
#include <algorithm>
#include <new>
#include <sys/types.h>
#define private public
#include <tulz/container/RingBuffer.h>
#undef private
#include "tracked.h"
#ifndef CAP
#define CAP 4
#endif
#ifndef NEWCAP
#define NEWCAP 2
#endif
#ifndef OW
#define OW false
#endif
#define MX (CAP > NEWCAP ? CAP : NEWCAP)
using vf::Tracked;
struct Model {
  int e[MX + 1]; size_t n, cap;
  void push_back(int v) { if (n == cap) { for (size_t i = 1; i < n; i++) e[i - 1] = e[i]; e[n - 1] = v; } else e[n++] = v; }
  void push_front(int v) { if (n == cap) { for (size_t i = n - 1; i > 0; i--) e[i] = e[i - 1]; e[0] = v; } else { for (size_t i = n; i > 0; i--) e[i] = e[i - 1]; e[0] = v; n++; } }
  int pop_back() { return e[--n]; }
  int pop_front() { int v = e[0]; for (size_t i = 1; i < n; i++) e[i - 1] = e[i]; n--; return v; }
  void resize(size_t c) { if (n > c) n = c; cap = c; }
};
using RB = tulz::RingBuffer<Tracked, OW>;
template<class B> static void same(B &rb, const Model &m) {
  __vf_check(rb.size() == m.n && rb.capacity() == m.cap, "size()/capacity() equal the model's");
  for (size_t i = 0; i < m.n; i++) {
    __vf_check(vf::known(rb[i].id) && vf::st[rb[i].id] == vf::LIVE, "every element of the buffer is alive (not destroyed, not a moved-from shell, not raw storage)");
    __vf_check(rb[i].val == m.e[i], "element value equals the model's");
    for (size_t j = 0; j < i; j++) __vf_check(rb[i].id != rb[j].id, "no element is a bitwise duplicate of another");
  }
  __vf_check(rb.m_pos >= 0 && (size_t)rb.m_pos < rb.m_capacity && rb.m_size <= rb.m_capacity && rb.m_data != nullptr, "representation invariant re-established");
}
template<class B> static void arbitrary(B &rb, Model &m, size_t C) {
  size_t pos = __vf_nondet_ulong(), n = __vf_nondet_ulong();
  __vf_assume(pos < C && n <= C);
  rb.m_pos = pos; rb.m_size = n; m.n = n; m.cap = C;
  // slots outside [pos, pos+n) stay raw (nondeterministic bytes): a destructor or assignment touching them is caught
  for (size_t i = 0; i < C; i++) if (i < n) { int v = __vf_nondet_int(); m.e[i] = v; new (&rb.m_data[(pos + i) % C]) Tracked(v); }
}
extern "C" void harness(void) {
  {
#if defined(BASE)
    { RB rb(CAP); Model m; m.n = 0; m.cap = CAP; same(rb, m); __vf_reach("ctor(capacity)"); }
    { int a = __vf_nondet_int(), b = __vf_nondet_int(); RB rb({Tracked(a), Tracked(b)}); Model m; m.n = 2; m.cap = 2; m.e[0] = a; m.e[1] = b; same(rb, m);
      __vf_reach("ctor(init-list)"); }
    { int a = __vf_nondet_int(); RB rb({Tracked(a)}, CAP); Model m; m.n = 1; m.cap = CAP; m.e[0] = a; same(rb, m); __vf_reach("ctor(init-list, capacity)"); }
#else
    RB rb(CAP); Model m;
    arbitrary(rb, m, CAP);
    const int op = OP;
    int v = __vf_nondet_int();
    int extra = 0;   // live Tracked objects owned by the harness at the point of the count
    switch (op) {
      case 0: __vf_assume(OW || m.n < m.cap); { Tracked t(v); rb.push_back(t); m.push_back(v); __vf_check(vf::live_count() == (int)m.n + 1, "after push_back: live elements = size (+ the caller's argument)"); } __vf_reach("push_back"); break;
      case 1: __vf_assume(OW || m.n < m.cap); { Tracked t(v); rb.push_front(t); m.push_front(v); __vf_check(vf::live_count() == (int)m.n + 1, "after push_front: live elements = size (+ the caller's argument)"); } __vf_reach("push_front"); break;
      case 2: __vf_assume(OW || m.n < m.cap); rb.emplace_back(v); m.push_back(v); __vf_reach("emplace_back"); break;
      case 3: __vf_assume(OW || m.n < m.cap); rb.emplace_front(v); m.push_front(v); __vf_reach("emplace_front"); break;
      case 4: __vf_assume(m.n > 0); { Tracked a = rb.pop_back(); int b = m.pop_back(); __vf_check(a.val == b && vf::st[a.id] == vf::LIVE, "pop_back returns the removed value as a live object");
                __vf_check(vf::live_count() == (int)m.n + 1, "after pop_back: live elements = size + the returned value"); } __vf_reach("pop_back"); break;
      case 5: __vf_assume(m.n > 0); { Tracked a = rb.pop_front(); int b = m.pop_front(); __vf_check(a.val == b && vf::st[a.id] == vf::LIVE, "pop_front returns the removed value as a live object");
                __vf_check(vf::live_count() == (int)m.n + 1, "after pop_front: live elements = size + the returned value"); } __vf_reach("pop_front"); break;
      case 6: {
        bool wrapped = m.n > 0 && rb.m_pos + m.n > CAP, cut = m.n > NEWCAP;
        rb.resize(NEWCAP); m.resize(NEWCAP); __vf_reach("resize");
#if CAP > 1
        if (wrapped) __vf_reach("resize of a wrapped layout");
#endif
#if NEWCAP < CAP
        if (cut) __vf_reach("resize cutting off elements");
#endif
      } break;
      case 7: { RB c(rb); same(c, m); same(rb, m); __vf_check(vf::live_count() == 2 * (int)m.n, "copy-construct: both buffers own live elements"); __vf_reach("copy-construct"); } break;
      case 8: { // copy-assign onto a buffer that already owns storage and KN elements
        RB c(NEWCAP); for (int i = 0; i < KN; i++) c.emplace_back(__vf_nondet_int());
        c = rb; same(c, m); same(rb, m);
        __vf_check(vf::live_count() == 2 * (int)m.n, "copy-assign: the replaced elements are destroyed, both buffers own live elements");
        __vf_reach("copy-assign");
      } break;
      case 9: { RB c(std::move(rb)); same(c, m); __vf_check(vf::live_count() == (int)m.n, "move-construct transfers the elements"); __vf_reach("move-construct"); goto end; }
      case 10: { RB c(NEWCAP); for (int i = 0; i < KN; i++) c.emplace_back(__vf_nondet_int());
                 c = std::move(rb); same(c, m); __vf_reach("move-assign"); goto end; }
      case 12: { RB &alias = rb; rb = alias; __vf_reach("self-assign"); } break;
      default: __vf_assume(0);
    }
    same(rb, m);
    __vf_check(vf::live_count() == (int)m.n + extra, "live elements = size(): removed elements were destroyed, kept ones were not");
  end: ;
#endif
  }
  // every buffer has been destroyed
  __vf_check(vf::live_count() == 0, "after destruction no element that still holds a value is left undestroyed");
  __vf_check(__vf_live_allocs() == 0, "after destruction every allocation has been freed");
  __vf_reach("end of harness");
}

// native confirmation of a race reported by the happens-before monitor on the ThreadPool (C15): the intended use of the pool
// (one owner: start / getters / update / stop; workers run tasks and expire) on real threads under ThreadSanitizer
#include <tulz/threading/ThreadPool.h>
#include <tulz/threading/Thread.h>
#include <atomic>
#include <chrono>
#include <thread>
using namespace tulz;
#ifndef EXPIRY
#define EXPIRY 0
#endif
struct T : Runnable {
  std::atomic<int> *c;
  explicit T(std::atomic<int> *c) : c(c) {}
  void run() override { c->fetch_add(1); }
};
int main() {
  std::atomic<int> done{0};
  for (int round = 0; round < 60; round++) {
    ThreadPool pool;
    pool.setMaxThreadCount(2);
    pool.setExpiryTimeout(EXPIRY);
    for (int i = 0; i < 4; i++) {
      pool.start(new T(&done));
      (void) pool.getActiveThreadCount(); (void) pool.getThreadCount(); (void) pool.isRunning();
      pool.update();
      if (EXPIRY >= 0) std::this_thread::sleep_for(std::chrono::milliseconds(2));   // lets idle workers expire while the owner keeps using the pool
    }
    pool.update();
    pool.stop();
  }
  return 0;
}

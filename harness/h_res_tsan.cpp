// Native confirmation of a C15 (Resource) counterexample: the same thread programs on real threads under ThreadSanitizer.
// TSan orders accesses by happens-before, so an unsynchronised pair of conflicting accesses is reported regardless of timing.
#include <tulz/threading/rwp/Resource.h>
#include <tulz/threading/rwp/ReadLock.h>
#include <tulz/threading/rwp/WriteLock.h>
#include <thread>
#include <atomic>
#include <cstdio>
using namespace tulz::rwp;
#ifndef P0
#define P0 0
#endif
#ifndef P1
#define P1 0
#endif
#ifndef P2
#define P2 0
#endif
#ifndef P3
#define P3 0
#endif
static Resource R; static std::atomic<int> go{0}; static int shared_counter;
static void prog(int p) {
  while (!go) {}
  for (int it = 0; it < 300; it++) for (int j = 0; j < (p & 3); j++) {
    bool w = (p >> (2 + j)) & 1, g = (p >> (5 + j)) & 1;
    if (g) { if (w) { WriteLock l(R); shared_counter++; } else { ReadLock l(R); (void) shared_counter; } }
    else { if (w) { R.lockWrite(); shared_counter++; R.unlockWrite(); } else { R.lockRead(); (void) shared_counter; R.unlockRead(); } }
  }
}
int main() {
  std::thread t0(prog, P0), t1(prog, P1), t2(prog, P2), t3(prog, P3);
  go = 1; t0.join(); t1.join(); t2.join(); t3.join();
  fprintf(stderr, "done %d\n", shared_counter);
  return 0;
}

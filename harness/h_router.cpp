// C06 / C13: SubjectRouter (or ConcurrentSubjectRouter from one thread). Cube: subscription keys (they decide which map nodes exist),
// an optional kill (unsubscribe / invalidate+notify), the pattern structure(s) (per level {a | b | r1 | r2 | .*}); symbolic: the regex truth
// table (what r1 and r2 match: "any regex, semantically") and the argument value.
#include <tulz/observer/routing/SubjectRouter.h>
#include <tulz/observer/routing/ConcurrentSubjectRouter.h>
#include <tulz/observer/routing/RoutingKeyBuilder.h>
#include "vf.h"
extern "C" { bool __vf_regex_truth(int id, int k); void __vf_regex_init(void); void __vf_regex_set(int id, int k, int v); const char *vf_native_regex_pattern(int id); }
#ifdef VF_NATIVE
#define RX(id) std::regex(vf_native_regex_pattern(id))
#else
#define RX(id) std::regex((id) == 1 ? "r1" : (id) == 2 ? "r2" : (id) == 3 ? "r3" : "r4")
#endif
using namespace tulz;
#ifndef SIG
#define SIG 1
#endif
#ifndef DEPTH
#define DEPTH 2
#endif
#ifdef CONCURRENT
using Router = ConcurrentSubjectRouter;
#else
using Router = SubjectRouter;
#endif
struct S { int v; bool moved_from; S(int x) : v(x), moved_from(false) {} S(const S &o) : v(o.v), moved_from(o.moved_from) {} S(S &&o) noexcept : v(o.v), moved_from(o.moved_from) { o.moved_from = true; o.v = -1; } };
// ---- finite key universe: names a=1, b=2; key code = digits base 3 (a -> 1, ab -> 1*3+2, ...), 0 = root ----
#define NSUB 3
#if DEPTH == 2
#define NKEYS 9      /* codes 1..8 valid: 1,2 (depth 1), 4,5,7,8 (depth 2) */
#else
#define NKEYS 27
#endif
static int klen(int code) { return code == 0 ? 0 : code < 3 ? 1 : code < 9 ? 2 : 3; }
static int klevel(int code, int lvl) { int l = klen(code); int d = code; for (int i = l - 1; i > lvl; i--) d /= 3; return d % 3; }   // name at level lvl (0-based below root): 1=a, 2=b
static bool kvalid(int code) { int l = klen(code); for (int i = 0; i < 3; i++) if (i < l && klevel(code, i) == 0) return false; return code < NKEYS; }
static int kparent(int code) { return code / 3; }
static RoutingKey mk_key(int code) { RoutingKeyBuilder b; int l = klen(code); for (int i = 0; i < 3; i++) if (i < l) b.level(klevel(code, i) == 1 ? "a" : "b"); return b.build(); }
// ---- symbolic pattern ----
struct Pat { int len; int kind[3]; int rbase; };   // regex levels use ids rbase+1, rbase+2   // kind: 1 = "a", 2 = "b", 3 = regex r1, 4 = regex r2, 5 = .*
// pattern structure comes from the cube (code = digits base 6, most significant = first level; 0 = no level): symbolic strings/lengths make every map lookup symbolic
static Pat cube_pat(int code, int rbase = 0) { Pat p; p.rbase = rbase; p.len = 0; int d[3] = {(code / 36) % 6, (code / 6) % 6, code % 6}; for (int i = 0; i < 3; i++) p.kind[i] = 5; for (int i = 0; i < 3; i++) if (d[i]) p.kind[p.len++] = d[i]; return p; }
static RoutingKey mk_pat(const Pat &p) {
  RoutingKeyBuilder b;
  for (int i = 0; i < 3; i++) if (i < p.len) { switch (p.kind[i]) { case 1: b.level("a"); break; case 2: b.level("b"); break; case 3: b.level(RX(p.rbase + 1)); break; case 4: b.level(RX(p.rbase + 2)); break; default: b.all(); } }
  return b.build();
}
static bool lvl_match(const Pat &p, int i, int name) { int k = p.kind[i]; return k <= 2 ? k == name : k == 5 ? true : __vf_regex_truth(p.rbase + k - 2, name); }
static bool prefix_match(const Pat &p, int code, int upto) { for (int i = 0; i < 3; i++) if (i < upto && !lvl_match(p, i, klevel(code, i))) return false; return true; }
static bool full_match(const Pat &p, int code) { return klen(code) == p.len && prefix_match(p, code, p.len); }
// ---- state ----
static Router *g_r;
static int sub_key[NSUB]; static bool sub_live[NSUB]; static int got[NSUB]; static int nsub;
static bool stored[NKEYS], has_subject[NKEYS];   // model of the node tree (prefix-closed) and of which nodes hold a subject
static int cur_arg;
#if SIG == 0
#define SUBSCRIBE(k, key) g_r->subscribe<>(key, [k]() { got[k]++; })
#define NOTIFY(key, a) g_r->notify<>(key)
#elif SIG == 1
#define SUBSCRIBE(k, key) g_r->subscribe<int>(key, [k](int x) { got[k]++; __vf_check(x == cur_arg, "C06: observer receives the argument value that was passed"); })
#define NOTIFY(key, a) g_r->notify<int>(key, int(a))
#elif SIG == 2
static S g_s(0);
#define SUBSCRIBE(k, key) g_r->subscribe<const S &>(key, [k](const S &x) { got[k]++; __vf_check(&x == &g_s && x.v == cur_arg, "C06: observer receives the object that was passed (by reference)"); })
#define NOTIFY(key, a) (g_s.v = (a), g_r->notify<const S &>(key, g_s))
#else
#define SUBSCRIBE(k, key) g_r->subscribe<S>(key, [k](S x) { got[k]++; __vf_check(!x.moved_from && x.v == cur_arg, "C06: every observer receives an intact copy of a by-value argument"); })
#define NOTIFY(key, a) g_r->notify<S>(key, S(a))
#endif
#ifdef CONCURRENT
using Handle = USubscription;
#define UNSUB(h) (h)->unsubscribe()
#define INVALIDATE(h) /* not reachable through USubscription */
#else
#if SIG == 0
using Handle = Subscription<>;
#elif SIG == 1
using Handle = Subscription<int>;
#elif SIG == 2
using Handle = Subscription<const S &>;
#else
using Handle = Subscription<S>;
#endif
#define UNSUB(h) (h).unsubscribe()
#define INVALIDATE(h) (h).getObserver()->invalidate()
#endif
static void model_add(int code) { for (int c = code; c > 0; c = kparent(c)) stored[c] = true; stored[0] = true; has_subject[code] = true; }
static bool live_at(int code) { for (int i = 0; i < NSUB; i++) if (i < nsub && sub_live[i] && sub_key[i] == code) return true; return false; }
static bool has_stored_child(int code) { for (int c = 1; c < NKEYS; c++) if (kvalid(c) && stored[c] && kparent(c) == code && klen(c) == klen(code) + 1) return true; return false; }
static size_t probe(const Pat &p) {   // notify with a fresh argument; checks the receivers and the return value against the model
  for (int i = 0; i < NSUB; i++) got[i] = 0;
  cur_arg = __vf_nondet_int() & 0xffff;
  RoutingKey key = mk_pat(p);
  size_t ret = NOTIFY(key, cur_arg);
  size_t exp_ret = 0;
  for (int c = 1; c < NKEYS; c++) if (kvalid(c) && stored[c] && has_subject[c] && full_match(p, c)) exp_ret++;
  for (int i = 0; i < NSUB; i++) if (i < nsub) __vf_check(got[i] == ((sub_live[i] && full_match(p, sub_key[i])) ? 1 : 0), "C06: exactly the observers whose key matches the pattern level by level are invoked, each once");
  __vf_check(ret == exp_ret, "C06: notify returns the number of distinct matched keys that hold a subject");
  return ret;
}
static void model_shrink(const Pat &p) {   // bottom-up: a stored key is erased iff its parent is visited by the pattern and the key is empty
  for (int d = DEPTH; d >= 1; d--)
    for (int c = 1; c < NKEYS; c++) if (kvalid(c) && klen(c) == d && stored[c]) {
      int par = kparent(c); int pd = klen(par);
      bool visited = pd <= p.len && prefix_match(p, par, pd) && (pd == 0 || true);
      // the root (level 0, name "") is matched by the builder's implicit "" level; a node at depth pd is visited iff pd <= len and its path matches
      bool empty = !live_at(c) && !has_stored_child(c);
      if (visited && empty) { stored[c] = false; has_subject[c] = false; }
    }
}
extern "C" void harness(void) {
  __vf_regex_init();
  {
    Router r; g_r = &r;
    nsub = __vf_cube(0);
    Handle *h[NSUB] = {nullptr, nullptr, nullptr};
    for (int i = 0; i < NSUB; i++) if (i < nsub) { sub_key[i] = __vf_cube(1 + i); RoutingKey key = mk_key(sub_key[i]); h[i] = new Handle(SUBSCRIBE(i, key)); sub_live[i] = true; model_add(sub_key[i]); }
    int kill = __vf_cube(4), kj = __vf_cube(5);
    if (kill == 1) { UNSUB(*h[kj]); sub_live[kj] = false; }
#ifndef CONCURRENT
    if (kill == 2) { INVALIDATE(*h[kj]); sub_live[kj] = false; Pat all; all.len = klen(sub_key[kj]); for (int i = 0; i < 3; i++) all.kind[i] = 5; probe(all); }   // lazy removal at the next notify
#endif
    Pat p = cube_pat(__vf_cube(7));
#if MODE == 6
    probe(p);
    if (__vf_cube(8)) { Pat q = cube_pat(__vf_cube(8)); probe(q); }   // a second, independent pattern on the same router
#else
    // C13: shrink is invisible to delivery; exists/depth stay consistent
    // the regexes of the SHRINK pattern (r3, r4) have a cube-given truth table: what they match decides which nodes are erased (heap shape)
    for (int r = 0; r < 2; r++) for (int k = 1; k <= 2; k++) __vf_regex_set(3 + r, k, (__vf_cube(6) >> (2 * r + k - 1)) & 1);
    __vf_regex_set(3, 0, 1); __vf_regex_set(4, 0, 1);
    Pat sp = cube_pat(__vf_cube(8), 2);
    bool full_wild = sp.len == DEPTH; for (int i = 0; i < 3; i++) if (i < sp.len && sp.kind[i] != 5) full_wild = false;   // full-depth wildcard shrink
    size_t r1 = probe(p);
    bool dead_before[NKEYS];
    for (int c = 1; c < NKEYS; c++) dead_before[c] = kvalid(c) && stored[c] && !live_at(c) && !has_stored_child(c);
    { RoutingKey sk = mk_pat(sp); r.shrink(sk); }
    bool was_stored[NKEYS]; for (int c = 0; c < NKEYS; c++) was_stored[c] = stored[c];
    model_shrink(sp);
    for (int i = 0; i < NSUB; i++) if (i < nsub && sub_live[i]) __vf_check(stored[sub_key[i]], "C13 (model sanity): a key with a live subscription is never removed");
    // delivery is unchanged (same receivers; the return value may only lose subjects of dead keys)
    probe(p);
    // exists() on every concrete key of the universe agrees with the model of stored keys
    for (int c = 1; c < NKEYS; c++) if (kvalid(c)) {
      RoutingKey k = mk_key(c); bool ex = r.exists(k);
      __vf_check(ex == stored[c], "C13: exists(concrete key) is true exactly for the stored keys (dead keys along the shrink pattern removed, nothing else)");
      if (was_stored[c] && !ex) { bool live_below = false; for (int i = 0; i < NSUB; i++) if (i < nsub && sub_live[i]) { int k2 = sub_key[i]; for (int q = k2; q > 0; q = kparent(q)) if (q == c) live_below = true; } __vf_check(!live_below, "C13: shrink never removes a key that still has a live subscription at or below it"); }
    }
    if (full_wild) for (int c = 1; c < NKEYS; c++) if (kvalid(c) && stored[c]) { bool live_below = false; for (int i = 0; i < NSUB; i++) if (i < nsub && sub_live[i]) { for (int q = sub_key[i]; q > 0; q = kparent(q)) if (q == c) live_below = true; } __vf_check(live_below, "C13: a full-depth wildcard shrink removes every dead branch"); }
    // exists(pattern) <=> some stored key or prefix matches it level by level
    { Pat ep = cube_pat(__vf_cube(9)); RoutingKey ek = mk_pat(ep); bool ex = r.exists(ek); bool mex = false; for (int c = 1; c < NKEYS; c++) if (kvalid(c) && stored[c] && full_match(ep, c)) mex = true;
      __vf_check(ex == mex, "C13: exists(pattern) is true exactly when some stored key matches the pattern level by level"); }
    { size_t dp = 1; for (int c = 1; c < NKEYS; c++) if (kvalid(c) && stored[c] && (size_t) klen(c) + 1 > dp) dp = klen(c) + 1; __vf_check(r.depth() == dp, "C13: depth() is one more than the longest stored key"); }
#endif
    for (int i = 0; i < NSUB; i++) delete h[i];
  }
  __vf_check(__vf_live_allocs() == 0, "no heap block is leaked when the router is destroyed");
  __vf_reach("end");
}

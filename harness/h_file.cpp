// C17: File round trip against the POSIX model (rt_fs.c). Cube: write mode, write overload(s)/split, read path, pre-existing size;
// symbolic: all content bytes (pre-existing and written).
#include <tulz/File.h>
#include <tulz/Exception.h>
#include "vf.h"
extern "C" { unsigned vf_fs_add(unsigned parent, const char *name, unsigned is_dir); void vf_fs_set(unsigned node, unsigned i, unsigned byte); unsigned vf_fs_size(unsigned node);
  unsigned vf_fs_byte(unsigned node, unsigned i); unsigned long vf_fs_open_handles(void); const char *vf_fs_root(void); }
using namespace tulz;
#define MAXB 6
// cube: [0] write mode (0 Write,1 WriteText,2 Append,3 AppendText) [1] total bytes written (0..MAXB) [2] split point (first write call gets this many)
//       [3] write overload (0 raw, 1 Array<byte>, 2 std::string) [4] pre-existing size (0..2, -1: file does not exist) [5] read path (0 read(),1 readStr(),2 read(buf)) [6] read mode (0 Read,1 ReadText)
//       [7] scenario (0 round trip, 1 missing file for reading, 2 directory, 3 seek/tell/size sequence)
static File::Mode wmode(int m) { return m == 0 ? File::Mode::Write : m == 1 ? File::Mode::WriteText : m == 2 ? File::Mode::Append : File::Mode::AppendText; }
static unsigned char content[MAXB], pre[2]; static unsigned char expect[MAXB + 2]; static int nexp;
static bool expecting_throw = false;
extern "C" void __vf_on_throw(void) { __vf_check(expecting_throw, "exception only where one is documented"); __vf_check(vf_fs_open_handles() == 0, "no stream left open when open() throws"); __vf_reach("documented exception thrown"); }
static void write_part(File &f, int from, int to, int overload) {
  int n = to - from; if (n <= 0) return;
  size_t w;
  if (overload == 0) w = f.write(content + from, n);
  else if (overload == 1) { Array<byte> a((size_t) n); for (int i = 0; i < MAXB; i++) if (i < n) a[i] = content[from + i]; w = f.write(a); }
  else { std::string s((const char *) content + from, (size_t) n); w = f.write(s); }
  __vf_check(w == (size_t) n, "write() reports the number of elements written");
}
extern "C" void harness(void) {
  int wm = __vf_cube(0), total = __vf_cube(1), split = __vf_cube(2), ov = __vf_cube(3), presz = __vf_cube(4), rp = __vf_cube(5), rm = __vf_cube(6), scen = __vf_cube(7);
  unsigned node = 0; (void) vf_fs_root();   // native replay: creates and enters the temporary directory
  if (presz >= 0) { node = vf_fs_add(0, "f", 0); for (int i = 0; i < 2; i++) if (i < presz) { pre[i] = __vf_nondet_uchar(); vf_fs_set(node, i, pre[i]); } }
  vf_fs_add(0, "d", 1);
  for (int i = 0; i < MAXB; i++) content[i] = __vf_nondet_uchar();
  if (scen == 1) { expecting_throw = true; VF_EXPECT_THROW(1, Path::NotFound, File f(Path("nope"), rm ? File::Mode::ReadText : File::Mode::Read)); __vf_check(false, "opening a missing file for reading must fail with NotFound"); }
  if (scen == 2) { expecting_throw = true; VF_EXPECT_THROW(1, Path::NotFile, File f(Path("d"), wm < 0 ? File::Mode::Read : wmode(wm))); __vf_check(false, "opening a directory must fail with NotFile"); }
  {
    File f("f", wmode(wm));
    __vf_check(f.isOpen() && f.getMode() == wmode(wm), "isOpen()/getMode() after open");
    write_part(f, 0, split, ov); write_part(f, split, total, ov);
    f.close();
    __vf_check(!f.isOpen(), "close() closes");
  }
  // expected content: append adds after the existing content, write truncates
  nexp = 0;
  if (wm >= 2 && presz > 0) for (int i = 0; i < 2; i++) if (i < presz) expect[nexp++] = pre[i];
  for (int i = 0; i < MAXB; i++) if (i < total) expect[nexp++] = content[i];
  {
    File f(Path("f"), rm ? File::Mode::ReadText : File::Mode::Read);
    __vf_check(f.size() == (size_t) nexp, "size() equals the number of bytes in the file");
    __vf_check(f.tell() == 0, "size() leaves the position unchanged");
    if (scen == 3) {   // seek / tell / size sequence
      long off = (long) (__vf_nondet_uchar() % (MAXB + 3));
      int r = f.seek(off, File::Origin::Start); __vf_check(r == 0 && f.tell() == off, "seek(Start)/tell()");
      __vf_check(f.size() == (size_t) nexp && f.tell() == off, "size() leaves the position unchanged after a seek");
      f.seek(0, File::Origin::End); __vf_check(f.tell() == nexp, "seek(End) positions at the size");
      f.seek(-(long) nexp, File::Origin::Current); __vf_check(f.tell() == 0, "seek(Current) is relative");
    }
    if (rp == 0) { Array<byte> d = f.read(); __vf_check(d.size() == (size_t) nexp, "read() returns size() bytes"); for (int i = 0; i < MAXB + 2; i++) if (i < nexp) __vf_check(d[i] == expect[i], "read() returns the bytes that were written"); }
    else if (rp == 1) { std::string s = f.readStr(); __vf_check(s.size() == (size_t) nexp, "readStr() returns size() bytes"); for (int i = 0; i < MAXB + 2; i++) if (i < nexp) __vf_check((unsigned char) s[i] == expect[i], "readStr() returns the bytes that were written"); }
    else { unsigned char buf[MAXB + 2]; size_t n = f.read(buf, 1, MAXB + 2); __vf_check(n == (size_t) nexp, "read(buffer) returns the byte count"); for (int i = 0; i < MAXB + 2; i++) if (i < nexp) __vf_check(buf[i] == expect[i], "read(buffer) returns the bytes that were written"); }
  }
  __vf_check(vf_fs_open_handles() == 0, "every stream is closed again");
  __vf_check(__vf_live_allocs() == 0, "no heap block is leaked");
  __vf_reach("end");
}

// C18: Path. MODE 0: string surgery (join / getPathName / getParentDirectory) on symbolic byte strings of cube-given lengths.
//            MODE 1: exists/isFile/isDirectory/size/listChildren/DirectoryVisitor against the POSIX model (rt_fs.c); tree shape from the cube.
#include <tulz/Path.h>
#include <tulz/DirectoryVisitor.h>
#include <tulz/Exception.h>
#include "vf.h"
extern "C" { unsigned vf_fs_add(unsigned parent, const char *name, unsigned is_dir); void vf_fs_set(unsigned node, unsigned i, unsigned byte); unsigned vf_fs_cwd(void); unsigned long vf_fs_open_handles(void); const char *vf_fs_root(void); }
using namespace tulz;
static bool is_sep(char c) { return c == '/' || c == '\\'; }
static std::string any_string(int len, bool sepfree) {
  char c[8]; for (int i = 0; i < 7; i++) { c[i] = (char) __vf_nondet_uchar(); if (i < len) { __vf_assume(c[i] != 0); if (sepfree) __vf_assume(!is_sep(c[i])); } } c[len] = 0;
  return std::string(c, (size_t) len);
}
static bool expecting_throw = false;
extern "C" void __vf_on_throw(void) { __vf_check(expecting_throw, "no exception on valid input (string operations are total)"); __vf_reach("documented exception thrown"); }
extern "C" void harness(void) {
#if MODE == 0
  int ld = __vf_cube(0), ln = __vf_cube(1), scen = __vf_cube(2);
  if (scen == 0) {
    // d non-empty (not ending in a backslash, which Path::join does not treat as a separator on Linux), n non-empty and separator-free
    std::string d = any_string(ld, false), n = any_string(ln, true);
    __vf_assume(d.back() != '\\');
    std::string j = Path::join(d, n);
    Path pj(j);
    __vf_check(pj.getPathName() == n, "the name of join(d, n) is n");
    std::string exp = d; if (exp.back() == '/') exp.erase(exp.size() - 1, 1);
    __vf_check(pj.getParentDirectory().toString() == exp, "the parent of join(d, n) is d without a trailing separator");
    __vf_check(Path::join(Path(d), Path(n)).toString() == j, "join(Path, Path) agrees with join(string, string)");
    __vf_reach("join/name/parent consistent");
  } else if (scen == 1) {
    // joining an absolute path yields that path
    std::string d = any_string(ld, false), a = any_string(ln, false);
    __vf_assume(a[0] == '/');
    __vf_check(Path::join(d, a) == a, "joining an absolute path yields that path");
    __vf_check(Path(a).isAbsolute() && (ld == 0 || d[0] == '/' || !Path(d).isAbsolute()), "isAbsolute()");
    __vf_reach("absolute join");
  } else {
    // totality: every string (including "", "/", "//") — no out-of-range erase, results are substrings
    std::string s = any_string(ld, false);
    Path p(s);
    std::string nm = p.getPathName(); Path par = p.getParentDirectory();
    __vf_check(nm.size() <= s.size() && par.toString().size() <= s.size(), "name and parent are no longer than the path");
    for (unsigned i = 0; i < 7; i++) if (i < nm.size()) __vf_check(!is_sep(nm[i]) || (i + 1 == nm.size()), "the name contains no separator (except a trailing one)");
    __vf_check(Path::join(std::string(), s) == s, "join with an empty first path yields the second");
    __vf_reach("total");
  }
#else
  // tree: node codes from the cube: [0] number of nodes (<= 4); node i: parent [1+2i] (0 = root), kind/name [2+2i] = isdir*4 + name index (names: "a", "b", "c c")
  static const char *names[3] = {"a", ".b", "c c"};   // a plain name, a hidden (dot) name, a name with a space
  int nn = __vf_cube(0); unsigned id[5] = {0, 0, 0, 0, 0}; int parent[5], kind[5], nm[5]; unsigned fsize[5];
  for (int i = 1; i <= 4; i++) if (i <= nn) {
    parent[i] = __vf_cube(2 * i - 1); int kn = __vf_cube(2 * i); kind[i] = kn / 4; nm[i] = kn % 4;
    id[i] = vf_fs_add(id[parent[i]], names[nm[i]], kind[i]);
    fsize[i] = 0;
    if (!kind[i]) { fsize[i] = __vf_nondet_uchar() % 5; for (unsigned b = 0; b < 4; b++) if (b < fsize[i]) vf_fs_set(id[i], b, __vf_nondet_uchar()); }
  }
  // absolute path of node i
  auto path_of = [&](int i) { std::string s(vf_fs_root());   /* "" in the model (absolute paths from "/"), the temporary directory in the native replay */ int chain[3], c = 0; for (int q = i; q != 0 && c < 3; q = parent[q]) chain[c++] = q; for (int k = c - 1; k >= 0; k--) { s += "/"; s += names[nm[chain[k]]]; } if (i == 0 && s.empty()) s = "/"; return s; };
  auto subtree_size = [&](int i) { size_t t = 0; for (int q = 1; q <= 4; q++) if (q <= nn && !kind[q]) { for (int a = q; a != 0; a = parent[a]) if (a == i) t += fsize[q]; if (i == 0) t += fsize[q]; } return t; };
  for (int i = 0; i <= 4; i++) if (i <= nn) {
    Path p(path_of(i)); bool dir = (i == 0) || kind[i];
    __vf_check(p.exists(), "exists() is true for an existing entry");
    __vf_check(p.isDirectory() == dir && p.isFile() == !dir, "isFile()/isDirectory() agree with the file system");
    __vf_check(p.size() == subtree_size(i), "size(): a file's size, or the total size of the regular files beneath a directory");
    if (dir) {
      int cnt[5] = {0, 0, 0, 0, 0}, extra = 0;
      for (const Path &c : p.listChildren()) { bool hit = false; for (int q = 1; q <= 4; q++) if (q <= nn && parent[q] == i && c.toString() == names[nm[q]]) { cnt[q]++; hit = true; } if (!hit) extra++; }
      __vf_check(extra == 0, "listChildren() returns only real entries (no '.' and '..')");
      for (int q = 1; q <= 4; q++) if (q <= nn && parent[q] == i) __vf_check(cnt[q] == 1, "listChildren() returns every entry exactly once");
    }
  }
  { Path missing(std::string(vf_fs_root()) + "/zz"); __vf_check(!missing.exists() && !missing.isFile() && !missing.isDirectory(), "a missing path does not exist"); }
  // DirectoryVisitor restores the previous working directory
  for (int i = 1; i <= 4; i++) if (i <= nn && kind[i]) { unsigned before = vf_fs_cwd(); { DirectoryVisitor v(Path(path_of(i))); __vf_check(vf_fs_cwd() == id[i], "DirectoryVisitor enters the directory"); } __vf_check(vf_fs_cwd() == before, "DirectoryVisitor restores the previous working directory"); }
  // the same with a RELATIVE target (resolved against the working directory at the time of the visit)
  for (int i = 1; i <= 4; i++) if (i <= nn && kind[i] && parent[i] == 0) { unsigned before = vf_fs_cwd(); { DirectoryVisitor v{Path(std::string(names[nm[i]]))}; __vf_check(vf_fs_cwd() == id[i], "DirectoryVisitor enters a relative directory"); } __vf_check(vf_fs_cwd() == before, "DirectoryVisitor restores the previous working directory after a relative visit"); }
  __vf_check(vf_fs_open_handles() == 0, "every stream and directory handle is closed again");
  __vf_reach("file system part");
#endif
}

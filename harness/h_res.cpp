// C01/C02/C03/C12: rwp::Resource under a symbolic schedule. Thread programs (kinds R/W, raw calls or guards) come from the cube.
// All harness loops are unrolled at compile time: in resumable code every loop variable is schedule-dependent (symbolic).
#include <tulz/threading/rwp/Resource.h>
#include <tulz/threading/rwp/ReadLock.h>
#include <tulz/threading/rwp/WriteLock.h>
#include "vf_thr.h"
using namespace tulz::rwp;
#ifndef NW
#define NW 3          /* worker threads (pre-started threads 0..NW-1); thread NW is the idle checker (C02) */
#endif
// program of worker i = macro Pi: bits 0-1 number of pairs (0..3), bit 2+j: pair j is a write, bit 5+j: pair j uses the guard class; BARRIER = C12 barrier size
static Resource R;
static int readers, writers;                       // C01 oracle
static int finished;                               // workers that completed their program
static int w_busy;                                 // writers between issuing lockWrite() and the return of unlockWrite() (C12 oracle)
#ifdef ORACLE_C03
enum { IDLE, ISSUED, PARKED, GRANTED };
static int rq_state[NW], rq_kind[NW];              // current request of worker i (0 read, 1 write)
static unsigned rq_issue_t[NW], rq_park_t[NW], clk;
#endif
static int cur_kind[4];                            // kind of the request a worker is currently issuing
static int barrier, w_holds, parked;               // C12(b): readers queue behind a writer, are admitted together and rendezvous inside the read section
extern "C" void vf_on_park(unsigned t) {           // first cv_wait of a lock call of thread t
#ifdef ORACLE_C03
  if (t < NW && rq_state[t] == ISSUED) { rq_state[t] = PARKED; rq_park_t[t] = ++clk; }
#endif
  parked++;
#ifdef ORACLE_C12
  // a read request is granted without waiting whenever no write request is active or waiting
  if (t < NW && cur_kind[t] == 0) __vf_check(w_busy > 0, "C12: a reader parks although no write request is active or waiting");
#endif
#ifdef C12_NOPARK
  __vf_check(false, "C12: a reader parks although no writer is active or waiting");
#endif
}
static inline void issue(int i, int k) {
  cur_kind[i] = k; if (k) w_busy++;
#ifdef ORACLE_C03
  rq_state[i] = ISSUED; rq_kind[i] = k; rq_issue_t[i] = ++clk;
#endif
}
#ifdef ORACLE_C03
template<int A> static inline void fifo_one(int i, int k) {
  // request A was already parked before request i was issued and is still not granted: only allowed for two reads of one batch
  if (A != i && rq_state[A] == PARKED && rq_park_t[A] < rq_issue_t[i]) {
    bool batch = (rq_kind[A] == 0 && k == 0);
#define WBETWEEN(W) if (W != A && W != i && W < NW && rq_kind[W] == 1 && rq_state[W] != IDLE && rq_state[W] != ISSUED && rq_park_t[W] > rq_park_t[A] && rq_park_t[W] < rq_issue_t[i]) batch = false;
    WBETWEEN(0) WBETWEEN(1) WBETWEEN(2) WBETWEEN(3)
    __vf_check(batch, "C03: a request is granted before an earlier request that was already waiting (FIFO fairness)");
  }
}
#endif
static inline void granted(int i, int k) {
#ifdef ORACLE_C03
  fifo_one<0>(i, k); if (NW > 1) fifo_one<1>(i, k); if (NW > 2) fifo_one<2>(i, k); if (NW > 3) fifo_one<3>(i, k);
  rq_state[i] = GRANTED;
#endif
  if (k) writers++; else readers++;
  __vf_check(writers == 0 || (writers == 1 && readers == 0), "C01: a writer never shares the lock");
}
static inline void leaving(int i, int k) {
  if (k) writers--; else readers--;
#ifdef ORACLE_C03
  rq_state[i] = IDLE;
#endif
}
static inline void section(int i, int k) {
  __vf_yield();
}
// programs are compile-time constants (-DP0=.. -DP1=..): every thread's resumable body contains exactly its own sequence
template<int I, int K, bool G> static inline void pair() {
  issue(I, K);
  if constexpr (G) {
    if constexpr (K) { { WriteLock l(R); granted(I, K); section(I, K); leaving(I, K); } w_busy--; }
    else { ReadLock l(R); granted(I, K); section(I, K); leaving(I, K); }
  } else {
    if constexpr (K) R.lockWrite(); else R.lockRead();
    granted(I, K); section(I, K); leaving(I, K);
    if constexpr (K) { R.unlockWrite(); w_busy--; } else R.unlockRead();
  }
}
template<int I, int P> static inline void prog() {
  if constexpr ((P & 3) > 0) pair<I, (P >> 2) & 1, (P >> 5) & 1>();
  if constexpr ((P & 3) > 1) pair<I, (P >> 3) & 1, (P >> 6) & 1>();
  if constexpr ((P & 3) > 2) pair<I, (P >> 4) & 1, (P >> 7) & 1>();
  finished++;
}
#ifndef P0
#define P0 0
#endif
#ifndef P1
#define P1 0
#endif
#ifndef P2
#define P2 0
#endif
#ifndef P3
#define P3 0
#endif
extern "C" unsigned vf_no_park;
extern "C" void __vf_hb_track(void *p);
extern "C" void vf_thread(int i) {
#ifdef HB_MONITOR
  __vf_hb_track(&R);   // C15: every byte of the Resource object is a candidate for the watched location
#endif
#ifdef C12_BARRIER
  // thread 0: writer holds the lock until BARRIER readers are parked behind it; threads 1..: readers that need each other inside the section
  if (i == 0) { R.lockWrite(); granted(0, 1); w_holds = 1; __vf_wait_until(&parked, BARRIER); leaving(0, 1); R.unlockWrite(); }
  else { __vf_wait_until(&w_holds, 1); R.lockRead(); granted(i, 0); barrier++; __vf_wait_until(&barrier, BARRIER); leaving(i, 0); R.unlockRead(); }
  finished++;
  return;
#endif
  switch (i) {
    case 0: prog<0, P0>(); break;
#if NW > 1
    case 1: prog<1, P1>(); break;
#endif
#if NW > 2
    case 2: prog<2, P2>(); break;
#endif
#if NW > 3
    case 3: prog<3, P3>(); break;
#endif
    default:
#ifdef C02_IDLE
      // C02: after all locks have been released the Resource is idle again: the next requests are granted without waiting
      __vf_wait_until(&finished, NW);
      vf_no_park = 1;
      R.lockWrite(); R.unlockWrite(); R.lockRead(); R.lockRead(); R.unlockRead(); R.unlockRead();
      vf_no_park = 0;
      __vf_reach("idle again after all locks were released");
#endif
      break;
  }
}
extern "C" void vf_final(void) { __vf_check(readers == 0 && writers == 0, "all sections left"); }

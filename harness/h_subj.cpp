// C05: one operation skeleton (kinds + targets are compile-time: they fix which heap nodes exist) on a Subject<ARGS>,
// followed by two notify rounds; mute flags, argument values, captured payloads and "handle was moved" bits are symbolic.
#include <tulz/observer/Subject.h>
#include "tracked.h"
using namespace tulz;
#ifndef SIG
#define SIG 1
#endif
// the skeleton: {OP1,K1,OP2,K2,OP3,K3,NPRE,ROUND0}; defined per query in rt/cube.c (-D at CBMC time), constant at symbolic-execution time
#define NOBS 4
struct S { int v; };
#if SIG == 0
using Subj = Subject<>; using Sub = Subscription<>;
#define NOTIFY(s, a, b) (s).notify()
#define EXPECT(k, a, b) __vf_expect(k, 0, 0)
#define CB(k, pay) [t = vf::Tracked(pay), kk = k]() { __vf_log(kk, 0, 0); }
#elif SIG == 1
using Subj = Subject<int>; using Sub = Subscription<int>;
#define NOTIFY(s, a, b) (s).notify(a)
#define EXPECT(k, a, b) __vf_expect(k, a, 0)
#define CB(k, pay) [t = vf::Tracked(pay), kk = k](int x) { __vf_log(kk, x, 0); }
#elif SIG == 2
using Subj = Subject<const S &>; using Sub = Subscription<const S &>;
static S g_arg;
#define NOTIFY(s, a, b) (g_arg.v = (a), (s).notify(g_arg))
#define EXPECT(k, a, b) __vf_expect(k, a, 1)
#define CB(k, pay) [t = vf::Tracked(pay), kk = k](const S &x) { __vf_log(kk, x.v, &x == &g_arg); }   /* by reference: same object */
#elif SIG == 4
// by-value class type whose move constructor marks the source: every observer must receive an intact copy
struct Sv { int v; bool moved; Sv(int x) : v(x), moved(false) {} Sv(const Sv &o) : v(o.v), moved(o.moved) {} Sv(Sv &&o) noexcept : v(o.v), moved(o.moved) { o.moved = true; o.v = -1; } };
using Subj = Subject<Sv>; using Sub = Subscription<Sv>;
#define NOTIFY(s, a, b) (s).notify(Sv(a))
#define EXPECT(k, a, b) __vf_expect(k, a, 1)
#define CB(k, pay) [t = vf::Tracked(pay), kk = k](Sv x) { __vf_log(kk, x.v, !x.moved); }
#else
using Subj = Subject<int, int>; using Sub = Subscription<int, int>;
#define NOTIFY(s, a, b) (s).notify(a, b)
#define EXPECT(k, a, b) __vf_expect(k, a, b)
#define CB(k, pay) [t = vf::Tracked(pay), kk = k](int x, int y) { __vf_log(kk, x, y); }
#endif
enum { NONE, LIVE, INVAL, GONE };
static Subj *g_s; static Sub sub[NOBS]; static int st[NOBS]; static bool muted[NOBS]; static int order[NOBS]; static int n;
static int extra_live = 0;
static int attached() { int c = 0; for (int i = 0; i < NOBS; i++) c += (st[i] == LIVE || st[i] == INVAL); return c; }
static void subscribe(int k) {
  sub[k] = g_s->subscribe(CB(k, __vf_nondet_int())); st[k] = LIVE; muted[k] = false; order[n++] = k;
  __vf_check(sub[k].isValid() && !sub[k].isMuted() && sub[k].getSubject() == g_s, "fresh subscription is valid and unmuted");
}
static void maybe_move(int k) {   // data: the handle may have been moved to another variable and back before use
  if (__vf_nondet_bool()) { Sub t(std::move(sub[k])); __vf_check(!sub[k].isValid(), "moved-from handle is invalid"); __vf_check(t.isValid() == (st[k] == LIVE || st[k] == INVAL), "moved-to handle keeps validity"); sub[k] = std::move(t); }
}
static void round_() {
  int a = __vf_nondet_int(), b = __vf_nondet_int();
  for (int i = 0; i < n; i++) { int k = order[i]; if (st[k] == LIVE && !muted[k]) EXPECT(k, a, b); }
  NOTIFY(*g_s, a, b);
  __vf_expect_done();
  for (int k = 0; k < NOBS; k++) if (st[k] == INVAL) st[k] = GONE;   // invalidated observers are unsubscribed right after their turn
  for (int k = 0; k < NOBS; k++) {
    if (st[k] == LIVE) { __vf_check(sub[k].isValid(), "handle of a subscribed observer is valid"); __vf_check(sub[k].isMuted() == muted[k], "isMuted() reports the mute state"); }
    if (st[k] == GONE) __vf_check(!sub[k].isValid(), "handle of a removed observer is invalid");
  }
  __vf_check(vf::live_count() == attached() + extra_live, "each attached observer owns exactly one callable; removed observers' callables are destroyed");
  __vf_check(g_s->hasSubscriptions() == (attached() > 0), "hasSubscriptions()");
}
static bool throwing = false;
extern "C" void __vf_on_throw(void) {
  // an exception was thrown (expected kind checked by the runtime): the Subject must be unchanged
  __vf_check(throwing, "exception only where the harness expects one");
  round_(); __vf_reach("rejected with an exception, state unchanged");
}
static void op(int kind, int k) {
  switch (kind) {
    case 0: subscribe(k); break;
    case 1: maybe_move(k); sub[k].unsubscribe(); st[k] = GONE; __vf_check(!sub[k].isValid() && sub[k].getSubject() == nullptr, "unsubscribe clears the handle"); break;
    case 2: maybe_move(k); g_s->unsubscribe(sub[k]); st[k] = GONE; __vf_check(!sub[k].isValid() && sub[k].getSubject() == nullptr, "unsubscribe clears the handle"); break;
    case 3: maybe_move(k); sub[k].mute(); muted[k] = true; break;
    case 4: maybe_move(k); sub[k].unmute(); muted[k] = false; break;
    case 5: maybe_move(k); sub[k].getObserver()->invalidate(); st[k] = INVAL; break;
    case 6: { // unsubscribe a stale handle through the subject: must throw std::invalid_argument and change nothing
      throwing = true; VF_EXPECT_THROW(2, 0, g_s->unsubscribe(sub[k])); __vf_check(false, "stale handle was accepted"); } break;
    case 7: { // foreign handle (valid for another Subject)
      static Subj other; Sub f = other.subscribe(CB(9, 0)); extra_live = 1; __vf_check(f.isValid(), "foreign handle valid for its own subject");
      throwing = true; VF_EXPECT_THROW(2, 0, g_s->unsubscribe(f)); __vf_check(false, "foreign handle was accepted"); } break;
    case 8: { Sub d; throwing = true; VF_EXPECT_THROW(2, 0, g_s->unsubscribe(d)); __vf_check(false, "default-constructed handle was accepted"); } break;
    case 9: round_(); break;
    default: break;
  }
}
extern "C" void harness(void) {
  {
    Subj s; g_s = &s;
    for (int k = 0; k < NOBS; k++) if (k < __vf_cube(6)) { subscribe(k); if (__vf_nondet_bool()) { sub[k].mute(); muted[k] = true; } }
    if (__vf_cube(7)) round_();
    for (int i = 0; i < 3; i++) if (__vf_cube(2 * i) >= 0) op(__vf_cube(2 * i), __vf_cube(2 * i + 1));
    round_(); round_();
    for (int k = 0; k < NOBS; k++) sub[k] = Sub();   // handles do not own anything
  }
  __vf_check(vf::live_count() == 0, "destroying the Subject destroys every remaining observer exactly once");
  __vf_check(__vf_live_allocs() == 0, "no heap block is leaked");
  __vf_reach("end");
}

// Native confirmation of a C11 lock-discipline counterexample: the failing operation (from the cube) runs in one real thread, a mix of
// reading and writing router operations in another, under ThreadSanitizer. TSan orders accesses by happens-before, so an access that is
// not protected by the Resource is reported as a data race regardless of timing.
#include <tulz/observer/routing/ConcurrentSubjectRouter.h>
#include <tulz/observer/routing/RoutingKeyBuilder.h>
#include <thread>
#include <atomic>
#include <vector>
#include <cstdio>
extern "C" int __vf_cube(int i);
using namespace tulz;
static RoutingKey mk(int code) {
  RoutingKeyBuilder b;
  switch (code) { case 1: b.level("a"); break; case 2: b.level("b"); break; case 4: b.level("a").level("a"); break; case 5: b.level("a").level("b"); break;
    case 6: b.all(); break; case 7: b.level("a").all(); break; case 8: b.all().all(); break; default: b.level(std::regex("[ab]")); }
  return b.build();
}
static std::atomic<int> got{0}, go{0};
int main() {
  ConcurrentSubjectRouter r;
  int nsub = __vf_cube(0), op = __vf_cube(3);
  std::vector<USubscription> h;
  for (int i = 0; i < nsub; i++) h.push_back(r.subscribe<int>(mk(__vf_cube(1 + i)), [](int) { got++; }));
  RoutingKey p = mk(__vf_cube(4));
  std::thread A([&] {
    while (!go) {}
    for (int n = 0; n < 200; n++) switch (op) {
      case 0: r.notify<int>(p, 5); break;
      case 1: r.shrink(p); break;
      case 2: (void) r.exists(p); break;
      case 3: (void) r.depth(); break;
      case 4: case 5: { auto s = r.subscribe<int>(mk(__vf_cube(1)), [](int) { got++; }); s->unsubscribe(); if (op == 5) r.shrink(p); } break;
    }
  });
  std::thread B([&] {
    while (!go) {}
    for (int n = 0; n < 200; n++) { auto s = r.subscribe<int>(mk(5), [](int) { got++; }); r.notify<int>(mk(8), 1); r.notify<int>(mk(6), 1); (void) r.exists(mk(7)); (void) r.depth(); s->unsubscribe(); r.shrink(mk(8)); }
  });
  go = 1; A.join(); B.join();
  fprintf(stderr, "done, %d deliveries\n", got.load());
  return 0;
}

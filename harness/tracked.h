// lifetime-tracking element type: identity (id) travels with the bytes, so bitwise relocation is transparent,
// while construction / destruction / moves are recorded in a registry indexed by id.
#pragma once
#include "vf.h"
namespace vf {
enum : unsigned char { RAW = 0, LIVE = 1, MOVED = 2, DEAD = 3 };
#ifndef VF_NREG
#define VF_NREG 24
#endif
inline unsigned char st[VF_NREG];
inline int nextid = 0;
inline int nlive = 0;   // number of ids in state LIVE (kept incrementally: no loop in the queries)
inline void set(int id, unsigned char n) { if (st[id] == LIVE) nlive--; st[id] = n; if (n == LIVE) nlive++; }
inline bool known(int id) { return id >= 0 && id < nextid; }
inline bool constructed(int id) { return known(id) && (st[id] == LIVE || st[id] == MOVED); }
struct Tracked {
  int id; int val;
  static int fresh() { __vf_bound(nextid < VF_NREG, "lifetime registry large enough"); return nextid++; }
  Tracked() : id(fresh()), val(0) { set(id, LIVE); }
  explicit Tracked(int v) : id(fresh()), val(v) { set(id, LIVE); }
  Tracked(const Tracked &o) : id(fresh()), val(o.val) { __vf_check(constructed(o.id), "copy source is a constructed element"); set(id, LIVE); }
  Tracked(Tracked &&o) noexcept : id(fresh()), val(o.val) { __vf_check(constructed(o.id), "move source is a constructed element"); set(id, LIVE); set(o.id, MOVED); }
  Tracked &operator=(const Tracked &o) {
    __vf_check(constructed(id), "assignment target is a constructed element"); __vf_check(constructed(o.id), "assignment source is a constructed element");
    val = o.val; set(id, LIVE); return *this; }
  Tracked &operator=(Tracked &&o) noexcept {
    __vf_check(constructed(id), "assignment target is a constructed element"); __vf_check(constructed(o.id), "assignment source is a constructed element");
    val = o.val; set(id, LIVE); if (&o != this) set(o.id, MOVED); return *this; }
  ~Tracked() { __vf_check(constructed(id), "destructor runs only on storage holding an element, and only once"); set(id, DEAD); }
  bool operator==(const Tracked &o) const { return val == o.val; }
};
inline int live_count() { return nlive; }
}

// C14: tulz::Array<T> — constructors and one step from an arbitrary state (length LEN, symbolic contents), then destruction
#include <cstddef>
#include <cstdlib>
#include <cstring>
#include <initializer_list>
#include <type_traits>
#include <utility>
#include <algorithm>
#include <new>
#include <tulz/container/Array.h>
#include "tracked.h"
#ifndef LEN
#define LEN 2
#endif
#ifndef NEWLEN
#define NEWLEN 3
#endif
#ifndef TY
#define TY 0
#endif
#define MX ((LEN > NEWLEN ? LEN : NEWLEN) + 1)
#if TY == 0
using T = int; static int val(const T &x) { return x; } static T mk(int v) { return v; }
#elif TY == 1
using T = unsigned char; static int val(const T &x) { return x; } static T mk(int v) { return (unsigned char) v; }
#else
using T = vf::Tracked; static int val(const T &x) { return x.val; } static T mk(int v) { return T(v); }
#endif
static bool alive(const vf::Tracked &x) { return vf::known(x.id) && vf::st[x.id] == vf::LIVE; }
static bool dup(const vf::Tracked &x, const vf::Tracked &y) { return x.id == y.id; }
template<class X> static bool alive(const X &) { return true; }
template<class X> static bool dup(const X &, const X &) { return false; }
template<class X> static void destroy_all(X *p, size_t n) { if constexpr (std::is_class_v<X>) for (size_t i = 0; i < n; i++) p[i].~X(); }
static constexpr bool CLS = std::is_class_v<T>;
static int norm(int v) { return TY == 1 ? (unsigned char) v : v; }
using A = tulz::Array<T>;
struct Model { int e[MX]; size_t n; };
static void same(A &a, const Model &m) {
  __vf_check(a.size() == m.n && a.empty() == (m.n == 0), "size()/empty() equal the model's");
  for (size_t i = 0; i < m.n; i++) {
    __vf_check(val(a[i]) == m.e[i], "operator[] returns the model's element");
    __vf_check(alive(a[i]), "every element is a live object");
    for (size_t j = 0; j < i; j++) __vf_check(!dup(a[i], a[j]), "no element is a bitwise duplicate of another");
  }
  size_t k = 0; for (T &x : a) { __vf_check(k < m.n && val(x) == m.e[k], "iteration yields the model's elements in order"); k++; }
  __vf_check(k == m.n, "iteration yields exactly size() elements");
  const A &ca = a; k = 0; for (auto it = ca.cbegin(); it != ca.cend(); ++it) { __vf_check(k < m.n && val(*it) == m.e[k], "const iteration"); k++; }
  if (m.n) { __vf_check(val(a.front()) == m.e[0] && val(a.back()) == m.e[m.n - 1], "front()/back()"); __vf_check(a.array() == &a[0], "array() points at element 0"); }
}
static int lives() { return CLS ? vf::live_count() : 0; }
static int L(int n) { return CLS ? n : 0; }
// arbitrary state of length n: a block of exactly n elements with symbolic values
static void arbitrary(A &a, Model &m, size_t n) {
  a.m_array = static_cast<T *>(malloc(n * sizeof(T))); a.m_size = n; m.n = n;
  for (size_t i = 0; i < n; i++) { int v = norm(__vf_nondet_int()); m.e[i] = v; new (&a.m_array[i]) T(mk(v)); }
}
static T *source(Model &m, size_t n) {   // heap block of n constructed elements (the caller's array)
  T *p = static_cast<T *>(malloc((n ? n : 1) * sizeof(T))); m.n = n;
  for (size_t i = 0; i < n; i++) { int v = norm(__vf_nondet_int()); m.e[i] = v; new (&p[i]) T(mk(v)); }
  return p;
}
static void drop(T *p, size_t n) { destroy_all(p, n); free(p); }
#define IL0 {}
#define IL1 {mk(m.e[0])}
#define IL2 {mk(m.e[0]), mk(m.e[1])}
#define IL3 {mk(m.e[0]), mk(m.e[1]), mk(m.e[2])}
#define IL4 {mk(m.e[0]), mk(m.e[1]), mk(m.e[2]), mk(m.e[3])}
#define IL5 {mk(m.e[0]), mk(m.e[1]), mk(m.e[2]), mk(m.e[3]), mk(m.e[4])}
#define CAT_(a, b) a##b
#define CAT(a, b) CAT_(a, b)
extern "C" void harness(void) {
  {
    const int op = OP; Model m; m.n = 0;
    switch (op) {
      // ---- construction paths ----
      case 0: { T *src = source(m, LEN); { A a(src, LEN); same(a, m); __vf_check(a.array() != src || LEN == 0, "ptr+len constructor copies");
                  __vf_check(lives() == L(2 * LEN), "copy made: source and array both own live elements");
                  if (LEN) { src[0] = mk(m.e[0] ^ 1); __vf_check(val(a[0]) == m.e[0], "copy is independent of the source"); } }
                drop(src, LEN); __vf_reach("ctor(ptr,len,copy)"); } break;
      case 1: { T *src = source(m, LEN); { A a(src, LEN, false); same(a, m); __vf_check(a.array() == src, "ptr+len constructor with copy=false adopts the block"); } __vf_reach("ctor(ptr,len,adopt)"); } break;
      case 2: { for (int i = 0; i < LEN; i++) m.e[i] = norm(__vf_nondet_int()); m.n = LEN; { A a(std::initializer_list<T> CAT(IL, LEN)); same(a, m); } __vf_reach("ctor(init-list)"); } break;
      case 3: { A a((size_t) LEN); __vf_check(a.size() == LEN, "size constructor: size()"); if (CLS) { m.n = LEN; for (int i = 0; i < LEN; i++) m.e[i] = 0; same(a, m); }
                else for (size_t i = 0; i < LEN; i++) a[i] = mk(7);   /* storage is writable */
                __vf_reach("ctor(size)"); } break;
      case 4: { int v = norm(__vf_nondet_int()); { T fill = mk(v); A a((size_t) LEN, fill); m.n = LEN; for (int i = 0; i < LEN; i++) m.e[i] = v; same(a, m); } __vf_reach("ctor(size,value)"); } break;
      case 5: { A a; same(a, m); __vf_check(a.array() == nullptr, "default constructor: empty"); __vf_reach("ctor()"); } break;
      // ---- one step from an arbitrary state ----
      case 6: { A a; arbitrary(a, m, LEN); { A c(a); same(c, m); same(a, m); __vf_check(LEN == 0 || c.array() != a.array(), "copy is deep");
                  __vf_check(lives() == L(2 * LEN), "copy-construct: both own live elements");
                  if (LEN) { c[0] = mk(m.e[0] ^ 1); __vf_check(val(a[0]) == m.e[0], "copies are independent"); } } same(a, m); __vf_reach("copy-construct"); } break;
      case 7: { A a; arbitrary(a, m, LEN); T *blk = a.array(); A c(std::move(a)); same(c, m); __vf_check(c.array() == blk && a.size() == 0 && a.array() == nullptr, "move-construct transfers the block and empties the source");
                __vf_check(lives() == L(LEN), "move-construct: no element created or destroyed"); __vf_reach("move-construct"); } break;
      case 8: { A a; arbitrary(a, m, LEN); Model mo; A c; arbitrary(c, mo, NEWLEN); c = a; same(c, m); same(a, m); __vf_check(lives() == L(2 * LEN), "copy-assign: old elements of the target destroyed, both own live elements"); __vf_reach("copy-assign"); } break;
      case 9: { A a; arbitrary(a, m, LEN); Model mo; A c; arbitrary(c, mo, NEWLEN); c = std::move(a); same(c, m); same(a, mo); __vf_check(lives() == L(LEN + NEWLEN), "move-assign swaps: nothing destroyed yet"); __vf_reach("move-assign"); } break;
      case 10: { A a; arbitrary(a, m, LEN); A &al = a; a = al; same(a, m); __vf_check(lives() == L(LEN), "self-assign is a no-op"); __vf_reach("self-assign"); } break;
      case 11: { A a; arbitrary(a, m, LEN); Model mo; A c; arbitrary(c, mo, NEWLEN); a.swap(c); same(a, mo); same(c, m); __vf_check(lives() == L(LEN + NEWLEN), "swap"); __vf_reach("swap"); } break;
      case 12: { A a; arbitrary(a, m, LEN); a.resize(NEWLEN);
                 if (CLS) { for (int i = LEN; i < NEWLEN; i++) m.e[i] = 0; m.n = NEWLEN; same(a, m); __vf_check(lives() == L(NEWLEN), "resize: cut-off elements destroyed, new ones default-constructed"); }
                 else { __vf_check(a.size() == NEWLEN, "resize: size()"); for (int i = 0; i < LEN && i < NEWLEN; i++) __vf_check(val(a[i]) == m.e[i], "resize keeps the first min(old,new) elements");
                        for (size_t i = 0; i < NEWLEN; i++) a[i] = mk(1); }
                 __vf_reach("resize(n)"); } break;
      case 13: { A a; arbitrary(a, m, LEN); int v = norm(__vf_nondet_int()); { T fill = mk(v); a.resize(NEWLEN, fill); } for (int i = LEN; i < NEWLEN; i++) m.e[i] = v; m.n = NEWLEN; same(a, m);
                 __vf_check(lives() == L(NEWLEN), "resize(n,value): cut-off elements destroyed, new ones copies of value"); __vf_reach("resize(n,value)"); } break;
      case 14: { A a; arbitrary(a, m, LEN); if (LEN) { size_t i = __vf_nondet_ulong(); __vf_assume(i < LEN); int v = norm(__vf_nondet_int()); a[i] = mk(v); m.e[i] = v; } same(a, m); __vf_reach("element write"); } break;
      default: __vf_assume(0);
    }
  }
  if (CLS) __vf_check(vf::live_count() == 0, "after destruction every constructed element has been destroyed exactly once");
  __vf_check(__vf_live_allocs() == 0, "after destruction every allocation has been freed");
  __vf_reach("end of harness");
}

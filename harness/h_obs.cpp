// C16: Observable<T, Eq>. Cube = operator sequence (+ subscriber count and where one of them unsubscribes);
// symbolic: the initial value and every operand. Shadow variable updated with the same C++ operator.
#include <tulz/observer/Observable.h>
#include <string>
#include "vf.h"
using namespace tulz;
#ifndef TY
#define TY 0
#endif
struct NearEq { bool operator()(const float &a, const float &b) const { float d = a - b; return d < 0.5f && d > -0.5f; } };
#if TY == 0
using T = int; using Obs = Observable<int>; static bool eq(const T &a, const T &b) { return a == b; } static int key(const T &v) { return v; }
static T any() { return (__vf_nondet_int() & 0x3ff) - 512; }     /* small magnitudes: the documented precondition "no signed overflow" */
#elif TY == 1
using T = short; using Obs = Observable<short>; static bool eq(const T &a, const T &b) { return a == b; } static int key(const T &v) { return v; }
static T any() { return (short) ((__vf_nondet_short() & 0x1f) - 16); }
#elif TY == 2
using T = float; using Obs = Observable<float, NearEq>; static bool eq(const T &a, const T &b) { return NearEq{}(a, b); } static int key(const T &v) { int k; __builtin_memcpy(&k, &v, 4); return k; }
static T any() { return (float) ((__vf_nondet_int() & 0x1f) - 16) * 0.25f; }   /* exactly representable quarters: comparisons with the tolerance are exact */
#elif TY == 4
// coarse equality: values in the same bucket of 4 compare equal. Assignment / += inside a bucket must NOT notify, ++ / -- must ALWAYS notify.
struct BucketEq { bool operator()(const int &a, const int &b) const { return (a >> 2) == (b >> 2); } };
using T = int; using Obs = Observable<int, BucketEq>; static bool eq(const T &a, const T &b) { return BucketEq{}(a, b); } static int key(const T &v) { return v; }
static T any() { return (__vf_nondet_int() & 0x3f) - 32; }
#else
using T = std::string; using Obs = Observable<std::string>; static bool eq(const T &a, const T &b) { return a == b; }
static int key(const T &v) { int k = (int) v.size(); for (unsigned i = 0; i < 3; i++) if (i < v.size()) k = k * 31 + (unsigned char) v[i]; return k; }
static int g_opnd = 0;   /* operand counter: operand k has the concrete length (cube[4] >> 2k) & 3, symbolic contents over {a,b} */
static T any() { unsigned n = (__vf_cube(4) >> (2 * g_opnd++)) & 3; char c[3] = {0, 0, 0}; for (unsigned i = 0; i < 2; i++) if (i < n) c[i] = 'a' + (__vf_nondet_uchar() & 1); return std::string(c, n); }
#endif
#define NSUB 2
static Obs *g_o; static T recorded[NSUB]; static bool subscribed[NSUB];
static void expect_all(const T &v) { for (int k = 0; k < NSUB; k++) if (subscribed[k]) __vf_expect(k, key(v), 1); }
enum { ASSIGN, ADD, SUB, MUL, DIV, PREINC, POSTINC, PREDEC, POSTDEC, APPLY_ADD, APPLY_NOP };
static T shadow;
static void op(int kind) {
  T old = shadow; T x = any();
  switch (kind) {
    case ASSIGN: { bool ch = !eq(shadow, x); if (ch) { shadow = x; expect_all(shadow); } int before = key(g_o->value()); *g_o = x; if (!ch) __vf_check(key(g_o->value()) == before, "an Eq-equal assignment leaves the stored value untouched"); } break;
#if TY != 3
    case SUB: shadow -= x; if (!eq(old, shadow)) expect_all(shadow); *g_o -= x; break;
#endif
    case ADD: shadow += x; if (!eq(old, shadow)) expect_all(shadow); *g_o += x; break;
#if TY == 1
    case MUL: shadow *= x; if (!eq(old, shadow)) expect_all(shadow); *g_o *= x; break;
    case DIV: __vf_assume(x != 0); shadow /= x; if (!eq(old, shadow)) expect_all(shadow); *g_o /= x; break;
#endif
#if TY <= 1 || TY == 4
    case PREINC: ++shadow; expect_all(shadow); { T &r = ++*g_o; __vf_check(&r == &g_o->value(), "prefix ++ returns the stored value"); } break;
    case POSTINC: ++shadow; expect_all(shadow); { T r = (*g_o)++; __vf_check(r == old, "postfix ++ returns the previous value"); } break;
    case PREDEC: --shadow; expect_all(shadow); { T &r = --*g_o; __vf_check(&r == &g_o->value(), "prefix -- returns the stored value"); } break;
    case POSTDEC: --shadow; expect_all(shadow); { T r = (*g_o)--; __vf_check(r == old, "postfix -- returns the previous value"); } break;
#endif
    case APPLY_ADD: shadow += x; if (!eq(old, shadow)) expect_all(shadow); g_o->apply([&x](T &v) { v += x; }); break;
    case APPLY_NOP: g_o->apply([&x](T &v) { T keep = v; v += x; v = keep; }); break;   // net effect: unchanged => nobody notified
    default: __vf_assume(0);
  }
  __vf_expect_done();
  __vf_check(eq(g_o->value(), shadow) && (TY == 2 || TY == 4 || key(g_o->value()) == key(shadow)), "value() is the result of the same operator applied to a plain variable");
  __vf_check(key(**g_o) == key(g_o->value()), "operator* and value() agree");
  if (TY != 2 && TY != 4) for (int k = 0; k < NSUB; k++) if (subscribed[k]) __vf_check(key(recorded[k]) == key(g_o->value()), "with the default equality a recording subscriber holds the current value()");
}
extern "C" void harness(void) {
  T init = any(); shadow = init;
  Obs o(init); g_o = &o;
  int nsub = __vf_cube(6), unsub_after = __vf_cube(7);
  auto s0 = o.subscribe([](T &v) { __vf_log(0, key(v), &v == &g_o->value()); recorded[0] = v; });
  subscribed[0] = true; recorded[0] = init;
  decltype(s0) s1;
  if (nsub > 1) { s1 = o.subscribe([](T &v) { __vf_log(1, key(v), &v == &g_o->value()); recorded[1] = v; }); subscribed[1] = true; recorded[1] = init; }
  for (int i = 0; i < 4; i++) if (__vf_cube(i) >= 0) {
    op(__vf_cube(i));
    if (unsub_after == i) { s0.unsubscribe(); subscribed[0] = false; }
  }
  __vf_reach("end");
}

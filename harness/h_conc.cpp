// C11 (premise 1) / C15 (router part): lock discipline of ConcurrentSubjectRouter. One thread runs the real Resource code, so
// Resource::m_activeOp tells in which mode the lock is held at every memory access of the router code (ll2c --acc reports them).
#define private public
#define protected public
#include <tulz/observer/routing/ConcurrentSubjectRouter.h>
#undef private
#undef protected
#include <tulz/observer/routing/RoutingKeyBuilder.h>
#include "vf.h"
extern "C" { void __vf_ld_track(void *p); void __vf_ld_track_range(void *p, unsigned long n); void __vf_ld_untrack(void *p); extern unsigned vf_monitor_on, vf_acc_reads, vf_acc_writes; void __vf_regex_init(void); }
using namespace tulz;
static ConcurrentSubjectRouter *g_r;
extern "C" unsigned vf_lock_mode(void) { return (unsigned) g_r->m_resource.m_activeOp; }
static RoutingKey mk(int code) {   // 1 = /a, 2 = /b, 4 = /a/a, 5 = /a/b, 6 = /.*, 7 = /a/.*, 8 = /.*/.* (regex levels), 9 = /r1
  RoutingKeyBuilder b;
  switch (code) { case 1: b.level("a"); break; case 2: b.level("b"); break; case 4: b.level("a").level("a"); break; case 5: b.level("a").level("b"); break;
    case 6: b.all(); break; case 7: b.level("a").all(); break; case 8: b.all().all(); break; default: b.level(std::regex("r1")); }
  return b.build();
}
static int got;
extern "C" void harness(void) {
  __vf_regex_init();
  {
    ConcurrentSubjectRouter r; g_r = &r;
    __vf_ld_track_range(&r.m_router, sizeof(r.m_router));   // the SubjectRouter sub-object only: the Resource next to it has its own mutex
    int nsub = __vf_cube(0);
    USubscription *h[2] = {nullptr, nullptr};
    for (int i = 0; i < 2; i++) if (i < nsub) {
      RoutingKey k = mk(__vf_cube(1 + i));
      vf_monitor_on = 1;
      USubscription tmp = r.subscribe<int>(k, [](int) { got++; });
      vf_monitor_on = 0;
      __vf_ld_untrack(tmp.operator->());   // the invoker (allocated inside subscribe) belongs to the caller's handle, not to the router
      h[i] = new USubscription(std::move(tmp));
      __vf_reach("subscribe");
    }
    int op = __vf_cube(3); RoutingKey p = mk(__vf_cube(4));
    vf_monitor_on = 1;
    switch (op) {
      case 0: r.notify<int>(p, 5); __vf_reach("notify"); break;
      case 1: r.shrink(p); __vf_reach("shrink"); break;
      case 2: (void) r.exists(p); __vf_reach("exists"); break;
      case 3: (void) r.depth(); __vf_reach("depth"); break;
      case 4: (*h[0])->unsubscribe(); __vf_reach("unsubscribe"); break;
      case 5: (*h[0])->unsubscribe(); r.shrink(p); __vf_reach("unsubscribe + shrink"); break;
      default: break;
    }
    vf_monitor_on = 0;
    __vf_check(vf_lock_mode() == 0, "C11: the Resource is released again after the operation");
    __vf_check(vf_acc_reads + vf_acc_writes > 0, "the operation touched router memory (monitor sanity)");
    for (int i = 0; i < 2; i++) delete h[i];
  }
  __vf_reach("end");
}

// C19: LocaleInfo::get. MODE 0: arbitrary NUL-terminated string of exactly LEN bytes (every byte symbolic): memory safety and
// "either a consistent table hit or the documented fallback". MODE 1: strings assembled from the tables (symbolic indices): the result
// equals an independent table lookup.
#include <tulz/LocaleInfo.h>
#include <cstring>
#include "vf.h"
using tulz::LocaleInfo;
#ifndef LEN
#define LEN 12
#endif
static bool same(const char *a, const char *b) { return strcmp(a, b) == 0; }
static void check_fallback(LocaleInfo::Info &r) {
  __vf_check(r.languageCode != nullptr && r.countryCode != nullptr && r.country != nullptr, "fallback: every field is set");
  __vf_check(same(r.languageCode, "en") && same(r.countryCode, "GB") && same(r.country, "United Kingdom"), "fallback: en / GB / United Kingdom");
  __vf_check(r.languages.size() == 1 && same(r.languages.front(), "English"), "fallback: languages = {English}");
}
static void check_success(LocaleInfo::Info &r, const char *lang, const char *country) {
  // every returned pointer refers to a table entry (pointer identity), and the entries are the ones named by the input
  int ci = -1; for (int j = 0; j < LocaleInfo::countiesCount; j++) if (r.countryCode == LocaleInfo::countryInfo[j].code && r.country == LocaleInfo::countryInfo[j].value) ci = j;
  __vf_check(ci >= 0, "success: country and countryCode point at one country table entry");
  int li = -1; for (int i = 0; i < LocaleInfo::languagesCount; i++) if (r.languageCode == LocaleInfo::languageInfo[i].code) li = i;
  __vf_check(li >= 0, "success: languageCode points at a language table entry");
  __vf_check(!r.languages.empty(), "success: at least one language name");
  if (ci >= 0 && li >= 0) {
    __vf_check(same(r.countryCode, country) || same(r.country, country), "success: the country is the one named in the input");
    bool by_code = same(r.languageCode, lang);
    int first = -1;
    for (const char *l : r.languages) {
      int k = -1; for (int i = 0; i < LocaleInfo::languagesCount; i++) if (l == LocaleInfo::languageInfo[i].value) k = i;
      __vf_check(k >= 0, "success: every language name points at a language table entry");
      if (first < 0) first = k;
    }
    if (first >= 0) {
      __vf_check(same(LocaleInfo::languageInfo[first].code, r.languageCode), "success: the language names belong to the returned code");
      if (!by_code) __vf_check(same(LocaleInfo::languageInfo[first].value, lang) && r.languages.size() == 1, "success: a language given by name returns that name");
    }
  }
}
extern "C" void harness(void) {
  char s[LEN + 1];
  for (int i = 0; i < LEN; i++) { s[i] = (char) __vf_nondet_uchar(); __vf_assume(s[i] != 0); }
  s[LEN] = 0;
  LocaleInfo::Info r = LocaleInfo::get(s);
#ifndef ORACLE
  __vf_reach("returned");   // memory safety only: every access inside get() is checked by CBMC
  return;
#endif
  if (r.error) { check_fallback(r); __vf_reach("fallback"); }
  else {
    // split the input the way the documentation describes: language '_' country [ '.' charset ]
    char lang[LEN + 1], country[LEN + 1]; int u = -1, d = LEN;
    for (int i = 0; i < LEN; i++) if (s[i] == '_' && u < 0) u = i;
    for (int i = LEN - 1; i >= 0; i--) if (s[i] == '.') d = i;
    __vf_check(u >= 0 && u < d, "success only for inputs of the form language_COUNTRY[.charset]");
    if (u >= 0 && u < d) {
      for (int i = 0; i <= LEN; i++) lang[i] = i < u ? s[i] : 0;
      for (int i = 0; i <= LEN; i++) country[i] = (u + 1 + i < d) ? s[u + 1 + i] : 0;
      check_success(r, lang, country);
    }
    __vf_reach("success");
  }
}

// C19: LocaleInfo::get on (a) an arbitrary byte string of length <= LEN, (b) strings assembled from the tables, (c) fallback shape
#include <tulz/LocaleInfo.h>
#include <cstring>
#include "vf.h"
using tulz::LocaleInfo;
#ifndef LEN
#define LEN 12
#endif
static bool streq(const char *a, const char *b) { return strcmp(a, b) == 0; }
// pointer p is one of the table strings (identity, not content)
static bool is_lang_code(const char *p) { for (int i = 0; i < LocaleInfo::languagesCount; i++) if (p == LocaleInfo::languageInfo[i].code) return true; return false; }
static bool is_lang_name(const char *p) { for (int i = 0; i < LocaleInfo::languagesCount; i++) if (p == LocaleInfo::languageInfo[i].value) return true; return false; }
static void check_fallback(LocaleInfo::Info &r) {
  __vf_check(r.error != nullptr, "fallback: error is set");
  __vf_check(r.languageCode && streq(r.languageCode, "en"), "fallback: language code en");
  __vf_check(r.countryCode && streq(r.countryCode, "GB"), "fallback: country code GB");
  __vf_check(r.country && streq(r.country, "United Kingdom"), "fallback: United Kingdom");
  __vf_check(r.languages.size() == 1 && streq(r.languages.front(), "English"), "fallback: languages = {English}");
}
extern "C" void harness(void) {
#if MODE == 0
  // (a) arbitrary NUL-terminated string of at most LEN bytes: memory safety + result is either a table hit or the fallback
  char s[LEN + 1];
  for (int i = 0; i < LEN; i++) s[i] = (char) __vf_nondet_uchar();
  s[LEN] = 0;
#ifdef UNDERSCORE_AT
  // cube: position of the first '_' (LEN = none)
  for (int i = 0; i < LEN; i++) { if (i < UNDERSCORE_AT) __vf_assume(s[i] != '_'); }
  if (UNDERSCORE_AT < LEN) __vf_assume(s[UNDERSCORE_AT] == '_');
#endif
  LocaleInfo::Info r = LocaleInfo::get(s);
  if (r.error) { check_fallback(r); __vf_reach("fallback taken"); }
  else {
    __vf_check(r.languageCode != nullptr && r.country != nullptr && r.countryCode != nullptr && !r.languages.empty(), "success: every field is set");
    bool cc = false; for (int j = 0; j < LocaleInfo::countiesCount; j++) if (r.countryCode == LocaleInfo::countryInfo[j].code && r.country == LocaleInfo::countryInfo[j].value) cc = true;
    __vf_check(cc, "success: country and countryCode point at one country table entry");
    __vf_check(is_lang_code(r.languageCode), "success: languageCode points at a table entry");
    for (const char *l : r.languages) __vf_check(is_lang_name(l), "success: every language name points at a table entry");
  }
  __vf_reach("end");
#endif
}

// C19: LocaleInfo::get. MODE 0: arbitrary NUL-terminated string of exactly LEN bytes (every byte symbolic): memory safety and
// "either a consistent table hit or the documented fallback". MODE 1: strings assembled from the tables (symbolic indices): the result
// equals an independent table lookup.
#include <tulz/LocaleInfo.h>
#include <cstring>
#include "vf.h"
using tulz::LocaleInfo;
#ifndef LEN
#define LEN 12
#endif
static bool same(const char *a, const char *b) { return strcmp(a, b) == 0; }
static void check_fallback(LocaleInfo::Info &r) {
  __vf_check(r.error != nullptr, "fallback: error is set");
  __vf_check(r.languageCode != nullptr && r.countryCode != nullptr && r.country != nullptr, "fallback: every field is set");
  __vf_check(same(r.languageCode, "en") && same(r.countryCode, "GB") && same(r.country, "United Kingdom"), "fallback: en / GB / United Kingdom");
  __vf_check(r.languages.size() == 1 && same(r.languages.front(), "English"), "fallback: languages = {English}");
}
// reference lookup, written from the documentation of get(): by code -> every table name with that code (table order),
// by name -> that name. The result is compared by POINTER identity with the table entries (no dereference of returned pointers).
struct Ref { bool success; int code_idx; int names[8]; int n; int country_idx; };
static Ref reference(const char *s) {
  Ref x; x.success = false; x.code_idx = -1; x.n = 0; x.country_idx = -1;
  int u = -1, d = LEN;
  for (int i = 0; i < LEN; i++) if (s[i] == '_' && u < 0) u = i;
  for (int i = LEN - 1; i >= 0; i--) if (s[i] == '.') d = i;
  if (!(u >= 0 && u < d && u < 64 && d - u - 1 < 64)) return x;   // not of the form language_COUNTRY[.charset] (or a part does not fit)
  char lang[LEN + 1], country[LEN + 1];
  for (int i = 0; i <= LEN; i++) lang[i] = i < u ? s[i] : 0;
  for (int i = 0; i <= LEN; i++) country[i] = (u + 1 + i < d) ? s[u + 1 + i] : 0;
  for (int i = 0; i < LocaleInfo::languagesCount; i++) {
    if (same(LocaleInfo::languageInfo[i].code, lang)) { x.code_idx = i; if (x.n < 8) x.names[x.n++] = i; }
    else if (same(LocaleInfo::languageInfo[i].value, lang)) { x.code_idx = i; if (x.n < 8) x.names[x.n++] = i; break; }
  }
  if (x.n == 0) return x;
  for (int j = 0; j < LocaleInfo::countiesCount; j++) if (same(LocaleInfo::countryInfo[j].code, country) || same(LocaleInfo::countryInfo[j].value, country)) { x.country_idx = j; break; }
  x.success = x.country_idx >= 0;
  return x;
}
extern "C" void harness(void) {
  char s[LEN + 1];
  for (int i = 0; i < LEN; i++) { s[i] = (char) __vf_nondet_uchar(); __vf_assume(s[i] != 0);
#ifdef FIRST_BYTE
    if (i == 0) __vf_assume(s[0] == (char) FIRST_BYTE);   // cube: the first input byte is fixed per query (all values of the alphabet are enumerated by the plan)
#endif
#ifdef SMALL_ALPHABET
    // quick tier: every string over a small alphabet that spells a known code pair (en, GB), both delimiters and an unknown letter
    __vf_assume(s[i] == 'e' || s[i] == 'n' || s[i] == 'G' || s[i] == 'B' || s[i] == '_' || s[i] == '.' || s[i] == 'x');
#endif
  }
  s[LEN] = 0;
  LocaleInfo::Info r = LocaleInfo::get(s);
#ifndef ORACLE
  __vf_reach("returned");   // memory safety only: every access inside get() is checked by CBMC
  return;
#endif
  Ref x = reference(s);
  if (!x.success) { check_fallback(r); __vf_reach("fallback"); }
  else {
    __vf_check(r.error == nullptr, "known language and country: no error");
    __vf_check(r.languageCode == LocaleInfo::languageInfo[x.code_idx].code, "languageCode is the table entry of the named language");
    __vf_check(r.countryCode == LocaleInfo::countryInfo[x.country_idx].code && r.country == LocaleInfo::countryInfo[x.country_idx].value, "country and countryCode are the table entry of the named country");
    __vf_check((int) r.languages.size() == x.n, "languages: all table names for the code (exactly the given name when the language is given by name)");
    int k = 0;
    for (const char *l : r.languages) { if (k < x.n) __vf_check(l == LocaleInfo::languageInfo[x.names[k]].value, "languages: the table entries in table order"); k++; }
    __vf_reach("success");
  }
}

// C20: tulz::Thread. The starting thread returns from start() (the by-value parameters of start() die: their bytes become arbitrary),
// keeps running, and the new thread may be scheduled arbitrarily late. Callable kinds: function pointer, small closure, large closure, Runnable.
#include <tulz/threading/Thread.h>
#include <tulz/threading/Runnable.h>
#include "vf_thr.h"
using namespace tulz;
#ifndef KIND
#define KIND 0
#endif
static int hits, returned, destroyed_runnables, runs;
static int shared_arg;
static void plain_fn(int &x) { hits++; x += 1; __vf_yield(); returned = 1; }
struct Small {
  int canary; int tag;
  explicit Small(int t) : canary(0x5a5a), tag(t) {}
  Small(const Small &o) : canary(0x5a5a), tag(o.tag) { __vf_check(o.canary == 0x5a5a, "C20: callable is copied from a live object"); }
  ~Small() { canary = 0xdead; }
  void operator()(int &x) { __vf_check(canary == 0x5a5a, "C20: the new thread invokes a callable object that is still alive"); __vf_check(tag == 7, "C20: the callable has its original state"); hits++; x += 1; __vf_yield(); returned = 1; }
};
struct Big {
  int canary; long pad[4]; int tag;
  explicit Big(int t) : canary(0x5a5a), tag(t) { pad[0] = 0; pad[1] = 1; pad[2] = 2; pad[3] = 3; }
  Big(const Big &o) : canary(0x5a5a), tag(o.tag) { __vf_check(o.canary == 0x5a5a, "C20: callable is copied from a live object"); pad[0] = o.pad[0]; pad[1] = o.pad[1]; pad[2] = o.pad[2]; pad[3] = o.pad[3]; }
  ~Big() { canary = 0xdead; }
  void operator()(int &x) { __vf_check(canary == 0x5a5a, "C20: the new thread invokes a callable object that is still alive"); __vf_check(tag == 7 && pad[3] == 3, "C20: the callable has its original state"); hits++; x += 1; __vf_yield(); returned = 1; }
};
struct Task : Runnable { int canary = 0x5a5a; void run() override { __vf_check(canary == 0x5a5a, "C20: the Runnable is alive while it runs"); runs++; __vf_yield(); returned = 1; } ~Task() override { canary = 0xdead; destroyed_runnables++; } };
extern "C" void vf_on_park(unsigned) {}
extern "C" void vf_thread(int) {
  Thread t;
  shared_arg = 10;
#if KIND == 0
  t.start(&plain_fn, shared_arg);
#elif KIND == 1
  { Small s(7); t.start(s, shared_arg); }
#elif KIND == 2
  { Big b(7); t.start(b, shared_arg); }
#else
  t.start(new Task());
#endif
  __vf_yield();
  if (t.isFinished()) __vf_check(returned == 1, "C20: isFinished() is true only after the callable has returned");
  __vf_check(t.isJoinable(), "C20: a started thread is joinable");
  t.join();
  __vf_check(returned == 1, "C20: join() returns only after the callable has returned");
  __vf_check(t.isFinished() && !t.isRunning(), "C20: isFinished() after join()");
#if KIND == 3
  __vf_check(runs == 1 && destroyed_runnables == 1, "C20: a Runnable is run once and then destroyed");
#else
  __vf_check(hits == 1 && shared_arg == 11, "C20: the callable is invoked exactly once with the caller's lvalue argument");
#endif
  __vf_reach("joined");
}
extern "C" void vf_final(void) { __vf_check(__vf_live_allocs() == 0, "C20: thread state and Runnable are released"); }

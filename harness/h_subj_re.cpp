// C10: callbacks that change the Subject during notify. Cube = per initial observer (action kind, target, round(s) in which it fires);
// symbolic: initial mute flags, argument values. A reference simulation of the rounds produces the expected log.
#include <tulz/observer/Subject.h>
#include "tracked.h"
using namespace tulz;
#define NOBS 6
using Subj = Subject<int>; using Sub = Subscription<int>;
enum { A_NONE, A_UNSUB_SELF, A_UNSUB, A_SUBSCRIBE, A_MUTE, A_INVAL_SELF, A_INVAL, A_NOTIFY, A_UNMUTE };
enum { NONE, LIVE, INVAL, GONE };
static Subj *g_s; static Sub sub[NOBS];
static int npre;                       // cube[6]
static bool fire[3][2];                // cube[7] bit 2i+r: does the action of initial observer i fire in round r (it changes the heap shape, so it is part of the cube)
static int cur_round, depth;
static int akind(int i) { return __vf_cube(2 * i); }
static int atarget(int i) { return __vf_cube(2 * i + 1); }
// ---------- model ----------
struct M { int st[NOBS]; bool muted[NOBS]; int order[NOBS]; int n; };
static M m;
static bool attached(const M &x, int k) { return x.st[k] == LIVE || x.st[k] == INVAL; }
static void sim_notify(int a, int d);
static void sim_action(int i, int a, int d) {   // effect of observer i's callback on the model
  if (i >= npre || !fire[i][cur_round] ) return;
  int j = atarget(i);
  switch (akind(i)) {
    case A_UNSUB_SELF: m.st[i] = GONE; break;
    case A_UNSUB: if (attached(m, j)) m.st[j] = GONE; break;
    case A_SUBSCRIBE: if (m.n < NOBS) { int k = m.n; m.st[k] = LIVE; m.muted[k] = false; m.order[m.n++] = k; } break;
    case A_MUTE: if (attached(m, j)) m.muted[j] = true; break;
    case A_UNMUTE: if (attached(m, j)) m.muted[j] = false; break;
    case A_INVAL_SELF: m.st[i] = INVAL; break;
    case A_INVAL: if (attached(m, j)) m.st[j] = INVAL; break;
    case A_NOTIFY: if (d == 0) sim_notify(a + 1, 1); break;
    default: break;
  }
}
static void sim_notify(int a, int d) {
  int snap[NOBS], sn = 0;
  for (int i = 0; i < NOBS; i++) if (i < m.n && attached(m, m.order[i])) snap[sn++] = m.order[i];
  for (int i = 0; i < NOBS; i++) if (i < sn) {
    int k = snap[i];
    if (!attached(m, k)) continue;                       // removed before its turn: skipped
    if (m.st[k] == LIVE && !m.muted[k]) { __vf_expect(k, a, d); sim_action(k, a, d); }
    if (m.st[k] == INVAL) m.st[k] = GONE;                // invalid observers are unsubscribed right after their turn
  }
}
// ---------- real ----------
static void subscribe_plain(int k) { sub[k] = g_s->subscribe([k, t = vf::Tracked(k)](int x) { __vf_log(k, x, depth); }); }
static void act(int i, int x) {
  if (!fire[i][cur_round]) return;
  int j = atarget(i);
  switch (akind(i)) {
    case A_UNSUB_SELF: sub[i].unsubscribe(); break;
    case A_UNSUB: if (sub[j].isValid()) sub[j].unsubscribe(); break;
    case A_SUBSCRIBE: { int k = 0; for (int q = 0; q < NOBS; q++) if (sub[q].getSubject() != nullptr || q < npre) k = q + 1; if (k < NOBS) subscribe_plain(k); } break;
    case A_MUTE: if (sub[j].isValid()) sub[j].mute(); break;
    case A_UNMUTE: if (sub[j].isValid()) sub[j].unmute(); break;
    case A_INVAL_SELF: sub[i].getObserver()->invalidate(); break;
    case A_INVAL: if (sub[j].isValid()) sub[j].getObserver()->invalidate(); break;
    case A_NOTIFY: if (depth == 0) { depth = 1; g_s->notify(x + 1); depth = 0; } break;
    default: break;
  }
}
extern "C" void harness(void) {
  {
    Subj s; g_s = &s; npre = __vf_cube(6);
    for (int i = 0; i < 3; i++) if (i < npre) {
      sub[i] = s.subscribe([i, t = vf::Tracked(i)](int x) { __vf_log(i, x, depth); act(i, x); });
      m.st[i] = LIVE; m.order[m.n++] = i;
      // initial mute flag: part of the cube (bits 8..10; bit 11 = 'leave symbolic') because it decides whether a shape-changing action runs
      bool mu = (__vf_cube(7) & 0x800) ? __vf_nondet_bool() : ((__vf_cube(7) >> (8 + i)) & 1);
      if (mu) { sub[i].mute(); m.muted[i] = true; }
      fire[i][0] = (__vf_cube(7) >> (2 * i)) & 1; fire[i][1] = (__vf_cube(7) >> (2 * i + 1)) & 1;
    }
    for (cur_round = 0; cur_round < 2; cur_round++) {
      int a = __vf_nondet_int() & 0xffff;
      sim_notify(a, 0);
      s.notify(a);
      __vf_expect_done();
      for (int k = 0; k < NOBS; k++) {
        if (m.st[k] == LIVE) { __vf_check(sub[k].isValid(), "subscribed observer keeps a valid handle after the round"); __vf_check(sub[k].isMuted() == m.muted[k], "mute state after the round"); }
        if (m.st[k] == GONE) __vf_check(!sub[k].isValid(), "observer removed during the round has an invalid handle");
      }
      int att = 0; for (int k = 0; k < NOBS; k++) att += attached(m, k);
      __vf_check(vf::live_count() == att, "callables of observers removed during the round are destroyed, the others are intact");
    }
    for (int k = 0; k < NOBS; k++) sub[k] = Sub();
  }
  __vf_check(vf::live_count() == 0 && __vf_live_allocs() == 0, "everything is released with the Subject");
  __vf_reach("end");
}

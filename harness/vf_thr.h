// thread-harness support (compiled into the unit; becomes resumable code through ll2c --co)
#pragma once
#include "vf.h"
extern "C" {
int __vf_thread_create(void (*fn)(void *), void *arg);
void __vf_thread_join(int id);
void __vf_yield(void);
void __vf_wait_until(void *counter, int n);     // blocks until *(int*)counter >= n
void (*__vf_thread_fn(int t))(void *);
void *__vf_thread_arg(int t);
void __vf_thread_exit(int t);
int __vf_self(void);
void vf_thread(int t);                           // body of the pre-started harness threads 0..__vf_prestart()-1
int __vf_prestart(void);
#if !defined(VF_NATIVE) && defined(VF_SPLIT_ENTRY)
// split roots (ll2c generates the dispatch on the constant thread number): pre-started harness threads / threads created at run time
void __vf_thread_entry(int t) { vf_thread(t); __vf_thread_exit(t); }
void __vf_thread_entry_dyn(int t) { void (*fn)(void *) = __vf_thread_fn(t); fn(__vf_thread_arg(t)); __vf_thread_exit(t); }
#elif !defined(VF_NATIVE)
// root of every sequentialised thread
void __vf_thread_entry(int t) {
  if (t < __vf_prestart()) vf_thread(t);
  else { void (*fn)(void *) = __vf_thread_fn(t); fn(__vf_thread_arg(t)); }
  __vf_thread_exit(t);
}
#endif
}

/* the few out-of-line libstdc++.so functions that real libstdc++ headers call (same code as libstdc++-v3/src/c++98/list.cc) */
#include <stddef.h>
struct lnb { struct lnb *next, *prev; };
void _ZNSt8__detail15_List_node_base7_M_hookEPS0_(void *self, void *pos) {
  struct lnb *s = self, *p = pos; s->next = p; s->prev = p->prev; p->prev->next = s; p->prev = s;
}
void _ZNSt8__detail15_List_node_base9_M_unhookEv(void *self) {
  struct lnb *s = self; struct lnb *n = s->next, *p = s->prev; p->next = n; n->prev = p;
}

/* Lock-discipline monitor (C11, C15/router): every access (ll2c --acc) to tracked "router memory" made while monitoring is on must
   happen with the Resource held: reads in read or write mode, writes in write mode. The mode comes from the real Resource code
   (harness hook vf_lock_mode reads Resource::m_activeOp of the single running thread). */
#include <stdint.h>
#include <stddef.h>
#define NTRACK 24
uint32_t vf_lock_mode(void);
uint32_t vf_monitor_on;
static size_t ld_tracked[NTRACK], ld_lo[NTRACK], ld_hi[NTRACK]; static int ld_n;
void __vf_ld_track_range(void *p, uint64_t n){ __CPROVER_assert(ld_n < NTRACK, "BOUND: tracked objects of the lock-discipline monitor"); __CPROVER_assume(ld_n < NTRACK);
  ld_tracked[ld_n] = __CPROVER_POINTER_OBJECT(p); ld_lo[ld_n] = __CPROVER_POINTER_OFFSET(p); ld_hi[ld_n] = n == (uint64_t)-1 ? (size_t)-1 : __CPROVER_POINTER_OFFSET(p) + n; ld_n++; }
void __vf_ld_track(void *p){ __vf_ld_track_range(p, (uint64_t)-1); }
void __vf_ld_untrack(void *p){ size_t o = __CPROVER_POINTER_OBJECT(p); for (int i = 0; i < NTRACK; i++) if (i < ld_n && ld_tracked[i] == o) ld_tracked[i] = (size_t)-1; }
/* heap blocks allocated by an operation that holds the Resource in WRITE mode become router memory; blocks allocated in read mode
   (Subject::notify's snapshot list) are private temporaries of the calling thread */
void __vf_new_hook(void *p){ if (vf_monitor_on && vf_lock_mode() == 2) __vf_ld_track(p); }
uint32_t vf_acc_reads, vf_acc_writes;
void __vf_acc(void *p, size_t n, int kind){
  if (!vf_monitor_on) return;
  size_t o = __CPROVER_POINTER_OBJECT(p); _Bool tr = 0;
  size_t off = __CPROVER_POINTER_OFFSET(p);
  for (int i = 0; i < NTRACK; i++) if (i < ld_n && ld_tracked[i] == o && off >= ld_lo[i] && off < ld_hi[i]) tr = 1;
  if (!tr) return;
  uint32_t mode = vf_lock_mode();
  if (kind & 1) { vf_acc_writes++; __CPROVER_assert(mode == 2, "property: C11 router memory is written only while the Resource is held in write mode"); }
  else { vf_acc_reads++; __CPROVER_assert(mode != 0, "property: C11 router memory is read only while the Resource is held (read or write mode)"); }
}
void __vf_hb_acquire(void *o){} void __vf_hb_release(void *o){} void __vf_hb_fork(int c){} void __vf_hb_join(int c){} void __vf_hb_init(void){}

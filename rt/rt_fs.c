/* In-memory POSIX file system model for C17/C18: nodes = {regular file with bytes | directory}, stdio streams, dirent, cwd.
   The contract encoded is POSIX's as seen on Linux/glibc: fopen(dir,"r") succeeds (reads fail), fopen(dir,"w"/"a") fails, text == binary. */
#include <stdint.h>
#include <stddef.h>
#include <stdlib.h>
#include <string.h>
/* glibc x86-64 layout of struct dirent (the unit under test accesses d_name through this layout) */
struct dirent { uint64_t d_ino; int64_t d_off; uint16_t d_reclen; uint8_t d_type; char d_name[256]; };
#ifndef VF_FS_NODES
#define VF_FS_NODES 6
#endif
#ifndef VF_FS_NAME
#define VF_FS_NAME 4      /* max name length */
#endif
#ifndef VF_FS_FMAX
#define VF_FS_FMAX 8      /* max file size */
#endif
#ifndef VF_FS_PATH
#define VF_FS_PATH 16     /* max path length handled by resolve() */
#endif
enum { N_NONE, N_FILE, N_DIR };
struct vnode { int kind, parent; char name[VF_FS_NAME + 1]; uint8_t data[VF_FS_FMAX]; long size; };
struct vnode vf_nodes[VF_FS_NODES];      /* node 0 is the root directory "/" */
int vf_cwd = 0;
int vf_fs_inited;
struct vfile { int used, node, mode /*0 r,1 w,2 a*/, eof; long pos; };
#define VF_NFILES 3
struct vfile vf_files[VF_NFILES];
struct vdir { int used, node, next; struct dirent ent; };
#define VF_NDIRS 3
struct vdir vf_dirs[VF_NDIRS];
long vf_open_streams, vf_open_dirs;      /* leak counters */

void vf_fs_init(void){ if (!vf_fs_inited) { vf_fs_inited = 1; vf_nodes[0].kind = N_DIR; vf_nodes[0].parent = 0; vf_nodes[0].name[0] = 0; } }
/* harness API: create nodes */
uint32_t vf_fs_add(uint32_t parent, void *name_, uint32_t is_dir){
  const char *name = name_; vf_fs_init();
  for (int i = 1; i < VF_FS_NODES; i++) if (vf_nodes[i].kind == N_NONE) {
    vf_nodes[i].kind = is_dir ? N_DIR : N_FILE; vf_nodes[i].parent = (int)parent; vf_nodes[i].size = 0;
    int k = 0; for (; k < VF_FS_NAME && name[k]; k++) vf_nodes[i].name[k] = name[k]; vf_nodes[i].name[k] = 0;
    __CPROVER_assert(name[k] == 0, "BOUND: file name length within VF_FS_NAME");
    return (uint32_t)i;
  }
  __CPROVER_assert(0, "BOUND: number of file system nodes within VF_FS_NODES"); __CPROVER_assume(0); return 0;
}
void vf_fs_set(uint32_t node, uint32_t i, uint32_t byte){ __CPROVER_assert(i < VF_FS_FMAX, "BOUND: file size within VF_FS_FMAX"); vf_nodes[node].data[i] = (uint8_t)byte; if ((long)i + 1 > vf_nodes[node].size) vf_nodes[node].size = (long)i + 1; }
uint32_t vf_fs_size(uint32_t node){ return (uint32_t)vf_nodes[node].size; }
uint32_t vf_fs_byte(uint32_t node, uint32_t i){ return vf_nodes[node].data[i]; }
uint32_t vf_fs_kind(uint32_t node){ return (uint32_t)vf_nodes[node].kind; }
uint32_t vf_fs_cwd(void){ return (uint32_t)vf_cwd; }
void *vf_fs_root(void){ return ""; }   /* absolute paths start at the model's root */
uint64_t vf_fs_open_handles(void){ return (uint64_t)(vf_open_streams + vf_open_dirs); }

static int child(int dir, const char *s, int n){
  for (int i = 1; i < VF_FS_NODES; i++) if (vf_nodes[i].kind != N_NONE && vf_nodes[i].parent == dir) {
    int k = 0; while (k < n && k < VF_FS_NAME && vf_nodes[i].name[k] == s[k]) k++;
    if (k == n && vf_nodes[i].name[k] == 0) return i;
  }
  return -1;
}
/* resolve a path: returns node or -1; if parent_out != 0 also reports the parent directory and last component of a missing leaf */
static int resolve(const char *p, int *parent_out, const char **leaf, int *leaflen){
  vf_fs_init();
  if (parent_out) *parent_out = -1;
  if (p[0] == 0) return -1;                       /* ENOENT for the empty path */
  int cur = vf_cwd, i = 0;
  if (p[0] == '/') { cur = 0; }
  for (int guard = 0; guard < VF_FS_PATH + 1; guard++) {
    while (p[i] == '/') i++;
    if (p[i] == 0) return cur;
    int j = i; while (p[j] != 0 && p[j] != '/') j++;
    __CPROVER_assert(j <= VF_FS_PATH, "BOUND: path length within VF_FS_PATH");
    if (vf_nodes[cur].kind != N_DIR) return -1;   /* ENOTDIR */
    int nx;
    if (j - i == 1 && p[i] == '.') nx = cur;
    else if (j - i == 2 && p[i] == '.' && p[i + 1] == '.') nx = vf_nodes[cur].parent;
    else nx = child(cur, p + i, j - i);
    if (nx < 0) {
      int k = j; while (p[k] == '/') k++;
      if (p[k] == 0 && p[j] == 0 && parent_out) { *parent_out = cur; *leaf = p + i; *leaflen = j - i; }   /* only the last component is missing (no trailing slash) */
      return -1;
    }
    cur = nx; i = j;
  }
  __CPROVER_assert(0, "BOUND: path components within VF_FS_PATH"); __CPROVER_assume(0); return -1;
}
void *fopen(void *path_, void *mode_){
  const char *path = path_, *mode = mode_;
  int m = mode[0] == 'r' ? 0 : mode[0] == 'w' ? 1 : 2;
  int parent; const char *leaf; int leaflen;
  int n = resolve(path, &parent, &leaf, &leaflen);
  if (n < 0) {
    if (m == 0 || parent < 0) return 0;
    __CPROVER_assert(leaflen <= VF_FS_NAME, "BOUND: file name length within VF_FS_NAME");
    char nm[VF_FS_NAME + 1]; int k = 0; for (; k < leaflen && k < VF_FS_NAME; k++) nm[k] = leaf[k]; nm[k] = 0;
    n = (int)vf_fs_add((uint32_t)parent, nm, 0);
  } else {
    if (vf_nodes[n].kind == N_DIR && m != 0) return 0;          /* EISDIR */
    if (m == 1) vf_nodes[n].size = 0;                           /* truncate */
  }
  for (int i = 0; i < VF_NFILES; i++) if (!vf_files[i].used) {
    vf_files[i].used = 1; vf_files[i].node = n; vf_files[i].mode = m; vf_files[i].eof = 0; vf_files[i].pos = 0; vf_open_streams++;
    return &vf_files[i];
  }
  __CPROVER_assert(0, "BOUND: number of simultaneously open streams"); __CPROVER_assume(0); return 0;
}
uint32_t fclose(void *f_){ struct vfile *f = f_; __CPROVER_assert(f && f->used, "UB: fclose of a stream that is not open"); f->used = 0; vf_open_streams--; return 0; }
uint32_t fflush(void *f_){ return 0; }
uint64_t fwrite(void *buf_, uint64_t size, uint64_t count, void *f_){
  struct vfile *f = f_; const uint8_t *buf = buf_;
  __CPROVER_assert(f && f->used, "UB: fwrite on a stream that is not open");
  if (f->mode == 0 || vf_nodes[f->node].kind != N_FILE) return 0;
  uint64_t total = size * count;
  if (f->mode == 2) f->pos = vf_nodes[f->node].size;            /* O_APPEND */
  __CPROVER_assert((uint64_t)f->pos + total <= VF_FS_FMAX, "BOUND: file size within VF_FS_FMAX"); __CPROVER_assume((uint64_t)f->pos + total <= VF_FS_FMAX);
  for (uint64_t i = 0; i < VF_FS_FMAX; i++) if (i < total) vf_nodes[f->node].data[f->pos + (long)i] = buf[i];
  f->pos += (long)total; if (f->pos > vf_nodes[f->node].size) vf_nodes[f->node].size = f->pos;
  return size ? count : 0;
}
uint64_t fread(void *buf_, uint64_t size, uint64_t count, void *f_){
  struct vfile *f = f_; uint8_t *buf = buf_;
  __CPROVER_assert(f && f->used, "UB: fread on a stream that is not open");
  if (vf_nodes[f->node].kind != N_FILE || f->mode != 0 || size == 0) return 0;   /* EISDIR / not readable */
  long avail = vf_nodes[f->node].size - f->pos; if (avail < 0) avail = 0;
  uint64_t items = (uint64_t)avail / size; if (items > count) items = count;
  uint64_t total = items * size;
  for (uint64_t i = 0; i < VF_FS_FMAX; i++) if (i < total) buf[i] = vf_nodes[f->node].data[f->pos + (long)i];
  f->pos += (long)total; if (items < count) f->eof = 1;
  return items;
}
uint32_t fgetc(void *f_){
  struct vfile *f = f_; __CPROVER_assert(f && f->used, "UB: fgetc on a stream that is not open");
  if (vf_nodes[f->node].kind != N_FILE || f->mode != 0 || f->pos >= vf_nodes[f->node].size) { f->eof = 1; return (uint32_t)-1; }
  return vf_nodes[f->node].data[f->pos++];
}
uint32_t feof(void *f_){ struct vfile *f = f_; return (uint32_t)f->eof; }
uint32_t fseek(void *f_, uint64_t off_, uint32_t whence){
  struct vfile *f = f_; long off = (long)off_; __CPROVER_assert(f && f->used, "UB: fseek on a stream that is not open");
  long base = whence == 0 ? 0 : whence == 1 ? f->pos : vf_nodes[f->node].size;
  if (base + off < 0) return (uint32_t)-1;
  f->pos = base + off; f->eof = 0; return 0;
}
uint64_t ftell(void *f_){ struct vfile *f = f_; __CPROVER_assert(f && f->used, "UB: ftell on a stream that is not open"); return (uint64_t)f->pos; }
void *opendir(void *path_){
  int n = resolve(path_, 0, 0, 0);
  if (n < 0 || vf_nodes[n].kind != N_DIR) return 0;
  for (int i = 0; i < VF_NDIRS; i++) if (!vf_dirs[i].used) { vf_dirs[i].used = 1; vf_dirs[i].node = n; vf_dirs[i].next = -2; vf_open_dirs++; return &vf_dirs[i]; }
  __CPROVER_assert(0, "BOUND: number of simultaneously open directory streams"); __CPROVER_assume(0); return 0;
}
void *readdir(void *d_){
  struct vdir *d = d_; __CPROVER_assert(d && d->used, "UB: readdir on a directory stream that is not open");
  if (d->next == -2) { d->next = -1; d->ent.d_name[0] = '.'; d->ent.d_name[1] = 0; return &d->ent; }
  if (d->next == -1) { d->next = 1; d->ent.d_name[0] = '.'; d->ent.d_name[1] = '.'; d->ent.d_name[2] = 0; return &d->ent; }
  for (int i = 1; i < VF_FS_NODES; i++) if (i >= d->next && vf_nodes[i].kind != N_NONE && vf_nodes[i].parent == d->node) {
    d->next = i + 1; int k = 0; for (; k < VF_FS_NAME && vf_nodes[i].name[k]; k++) d->ent.d_name[k] = vf_nodes[i].name[k]; d->ent.d_name[k] = 0; return &d->ent;
  }
  d->next = VF_FS_NODES; return 0;
}
uint32_t closedir(void *d_){ struct vdir *d = d_; __CPROVER_assert(d && d->used, "UB: closedir on a directory stream that is not open"); d->used = 0; vf_open_dirs--; return 0; }
uint32_t chdir(void *path_){ int n = resolve(path_, 0, 0, 0); if (n < 0 || vf_nodes[n].kind != N_DIR) return (uint32_t)-1; vf_cwd = n; return 0; }
/* getcwd: writes the absolute path of the cwd (root = "/") */
void *getcwd(void *buf_, uint64_t size){
  char *buf = buf_; vf_fs_init();
  int chain[VF_FS_NODES]; int n = 0, c = vf_cwd;
  for (int g = 0; g < VF_FS_NODES; g++) if (c != 0) { chain[n++] = c; c = vf_nodes[c].parent; }
  uint64_t o = 0;
  if (n == 0) { buf[o++] = '/'; }
  for (int g = 0; g < VF_FS_NODES; g++) if (g < n) { int nd = chain[n - 1 - g]; buf[o++] = '/'; for (int k = 0; k < VF_FS_NAME && vf_nodes[nd].name[k]; k++) buf[o++] = vf_nodes[nd].name[k]; }
  buf[o] = 0; return buf;
}
/* further stdio entry points a maintainer might reach for (same model) */
void rewind(void *f_){ struct vfile *f = f_; __CPROVER_assert(f && f->used, "UB: rewind on a stream that is not open"); f->pos = 0; f->eof = 0; }
uint32_t getc(void *f_){ return fgetc(f_); }
uint32_t fputc(uint32_t c, void *f_){ uint8_t b = (uint8_t)c; return fwrite(&b, 1, 1, f_) == 1 ? (uint32_t)b : (uint32_t)-1; }
uint32_t putc(uint32_t c, void *f_){ return fputc(c, f_); }
uint32_t fputs(void *s_, void *f_){ const char *s = s_; uint64_t n = 0; while (s[n]) n++; return fwrite(s_, 1, n, f_) == n ? 1 : (uint32_t)-1; }
uint32_t ferror(void *f_){ return 0; }
void clearerr(void *f_){ struct vfile *f = f_; f->eof = 0; }
uint32_t ungetc(uint32_t c, void *f_){ struct vfile *f = f_; if (f->pos > 0) { f->pos--; f->eof = 0; return c; } return (uint32_t)-1; }

// native counterpart of the harness-facing part of rt/rt_fs.c: the tree is created in a fresh temporary directory of the real file system
#include <cstdio>
#include <cstdlib>
#include <cstring>
#include <string>
#include <vector>
#include <unistd.h>
#include <sys/stat.h>
#include <fcntl.h>
static std::vector<std::string> g_path; static std::vector<int> g_dir; static std::string g_root;
static void init() {
  if (!g_root.empty()) return;
  char tmpl[] = "/tmp/vf_fs_XXXXXX"; g_root = mkdtemp(tmpl); g_path.push_back(g_root); g_dir.push_back(1);
  if (chdir(g_root.c_str()) != 0) abort();
}
extern "C" {
const char *vf_fs_root(void) { init(); return g_root.c_str(); }
unsigned vf_fs_add(unsigned parent, const char *name, unsigned is_dir) {
  init(); std::string p = g_path[parent] + "/" + name;
  if (is_dir) mkdir(p.c_str(), 0755); else { int fd = open(p.c_str(), O_CREAT | O_WRONLY | O_TRUNC, 0644); close(fd); }
  g_path.push_back(p); g_dir.push_back(is_dir); return (unsigned) g_path.size() - 1;
}
void vf_fs_set(unsigned node, unsigned i, unsigned byte) { int fd = open(g_path[node].c_str(), O_WRONLY); unsigned char b = (unsigned char) byte; if (pwrite(fd, &b, 1, i) != 1) abort(); close(fd); }
unsigned vf_fs_size(unsigned node) { struct stat st; stat(g_path[node].c_str(), &st); return (unsigned) st.st_size; }
unsigned vf_fs_byte(unsigned node, unsigned i) { int fd = open(g_path[node].c_str(), O_RDONLY); unsigned char b = 0; if (pread(fd, &b, 1, i) != 1) b = 0; close(fd); return b; }
unsigned vf_fs_kind(unsigned node) { struct stat st; if (stat(g_path[node].c_str(), &st)) return 0; return S_ISDIR(st.st_mode) ? 2 : 1; }
unsigned vf_fs_cwd(void) { init(); char buf[4096]; if (!getcwd(buf, sizeof buf)) return (unsigned) -1; for (size_t i = 0; i < g_path.size(); i++) if (g_path[i] == buf) return (unsigned) i; return (unsigned) -1; }
unsigned long vf_fs_open_handles(void) { return 0; }   // not observable natively (LeakSanitizer covers FILE objects)
}

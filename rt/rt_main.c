/* entry point of sequential (single-thread) harnesses */
void __vf_global_ctors(void);
void harness(void);
int main(void){ __vf_global_ctors(); harness(); return 0; }

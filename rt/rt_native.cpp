// native side of the harness hooks: replays the nondeterministic values of a CBMC counterexample
// against the real build (g++, real libstdc++, ASan/UBSan)
#include <cstdio>
#include <cstdlib>
#include <cstring>
#include <vector>
#include <unistd.h>
#include "vf.h"
static std::vector<unsigned long long> *vals; static size_t idx;
static unsigned long long next() {
  if (!vals) {
    vals = new std::vector<unsigned long long>();
    if (const char *p = getenv("VF_REPLAY")) {
      if (FILE *f = fopen(p, "r")) {
        char line[256];
        while (fgets(line, sizeof line, f)) {
          vals->push_back(strtoull(line, nullptr, 10));
        }
        fclose(f);
      }
    }
  }
  return idx < vals->size() ? (*vals)[idx++] : 0;
}
extern "C" {
int __vf_nondet_int(void) { return (int) next(); }
unsigned __vf_nondet_uint(void) { return (unsigned) next(); }
unsigned long __vf_nondet_ulong(void) { return (unsigned long) next(); }
unsigned char __vf_nondet_uchar(void) { return (unsigned char) next(); }
short __vf_nondet_short(void) { return (short) next(); }
bool __vf_nondet_bool(void) { return next() & 1; }
void __vf_assume(bool c) { if (!c) { fprintf(stderr, "REPLAY-DIVERGED: an assumption of the harness is false under the replayed values\n"); _exit(3); } }
void __vf_check(bool c, const char *m) { if (!c) { fprintf(stderr, "CHECK-FAILED: %s\n", m); fflush(stderr); _exit(1); } }
void __vf_bound(bool c, const char *m) { if (!c) { fprintf(stderr, "REPLAY-DIVERGED: bound %s\n", m); _exit(3); } }
void __vf_reach(const char *) {}
long __vf_live_allocs(void) { return 0; }   // natively LeakSanitizer plays this role
#ifndef VF_NO_MAIN
void harness(void);
#endif
}
#ifndef VF_NO_MAIN
int main() { harness(); return 0; }
#endif
// expected-delivery queue (same logic as rt_model.c)
static int eq_id[64], eq_a[64], eq_b[64], eq_h, eq_t;
extern "C" {
void __vf_expect(int id, int a, int b) { if (eq_t < 64) { eq_id[eq_t] = id; eq_a[eq_t] = a; eq_b[eq_t] = b; eq_t++; } }
void __vf_log(int id, int a, int b) {
  __vf_check(eq_h < eq_t, "no delivery beyond the expected ones (exactly-once, never after unsubscribe/invalidate, muted observers skipped)");
  __vf_check(eq_id[eq_h] == id, "deliveries happen in the expected (subscription) order to the expected observers");
  __vf_check(eq_a[eq_h] == a && eq_b[eq_h] == b, "observer receives the argument values that were passed");
  eq_h++;
}
void __vf_expect_done(void) { __vf_check(eq_h == eq_t, "every expected delivery happened (no live, unmuted observer was skipped)"); eq_h = eq_t = 0; }
void __vf_expect_throw(int, int) {}
}
// regex truth table natively: the replayed table is turned into real std::regex patterns by the harness (vf_native_regex_pattern)
static bool n_tt[10][4];
extern "C" {
void __vf_regex_init(void) { for (int r = 1; r <= 4; r++) for (int k = 0; k < 4; k++) n_tt[r][k] = __vf_nondet_bool(); }
bool __vf_regex_truth(int id, int k) { return id == 0 ? true : n_tt[id][k]; }
void __vf_regex_set(int id, int k, int v) { n_tt[id][k] = v & 1; }
const char *vf_native_regex_pattern(int id) {   // alternation of the universe names the table says this regex matches
  static char buf[10][32]; char *b = buf[id]; b[0] = 0; const char *names[4] = {"", "a", "b", "c"}; bool first = true;
  strcat(b, "(?:");
  for (int k = 0; k < 4; k++) if (n_tt[id][k]) { if (!first) strcat(b, "|"); strcat(b, names[k]); first = false; }
  if (first) strcat(b, "[^\\s\\S]");   // matches nothing
  strcat(b, ")");
  return b;
}
}

/* plain-loop versions of the few <string.h> functions LocaleInfo.cpp uses (they replace CBMC's built-in models, whose byte-level
   encodings of symbolic-length copies are far more expensive); semantics per ISO C; every access is bounds-checked by CBMC */
#include <stddef.h>
#include <stdint.h>
char *strstr(const char *h, const char *n){   /* only single-character needles occur in tulz */
  __CPROVER_assert(n[0] != 0 && n[1] == 0, "BOUND: strstr needle is a single character");
  for (size_t i = 0; ; i++) { if (h[i] == n[0]) return (char *)h + i; if (h[i] == 0) return 0; }
}
size_t strlen(const char *s){ size_t i = 0; while (s[i]) i++; return i; }
int strcmp(const char *a, const char *b){ for (size_t i = 0; ; i++) { unsigned char x = a[i], y = b[i]; if (x != y) return x < y ? -1 : 1; if (x == 0) return 0; } }
void *memcpy(void *d, const void *s, size_t n){
  /* the length must fit both objects: checked first (a negative length converted to size_t fails here) and then assumed, which bounds the loop */
  size_t room_d = __CPROVER_OBJECT_SIZE(d) - __CPROVER_POINTER_OFFSET(d), room_s = __CPROVER_OBJECT_SIZE(s) - __CPROVER_POINTER_OFFSET(s);
  __CPROVER_assert(n <= room_d, "memory safety: memcpy writes outside its destination buffer");
  __CPROVER_assert(n <= room_s, "memory safety: memcpy reads outside its source buffer");
  __CPROVER_assume(n <= room_d && n <= room_s);
  for (size_t i = 0; i < n; i++) ((char *)d)[i] = ((const char *)s)[i];
  return d;
}
void *memset(void *d, int c, size_t n){
  size_t room_d = __CPROVER_OBJECT_SIZE(d) - __CPROVER_POINTER_OFFSET(d);
  __CPROVER_assert(n <= room_d, "memory safety: memset writes outside its buffer"); __CPROVER_assume(n <= room_d);
  for (size_t i = 0; i < n; i++) ((char *)d)[i] = (char)c;
  return d;
}

/* happens-before monitor switched off */
#include <stddef.h>
void __vf_hb_acquire(void *o){} void __vf_hb_release(void *o){} void __vf_hb_fork(int c){} void __vf_hb_join(int c){} void __vf_hb_init(void){}
void __vf_acc(void *p, size_t n, int kind){}
void __vf_hb_track(void *p){}

/* happens-before monitor switched off */
void __vf_hb_acquire(void *o){} void __vf_hb_release(void *o){} void __vf_hb_fork(int c){} void __vf_hb_join(int c){}
void __vf_acc(void *p, unsigned long n, int kind){}

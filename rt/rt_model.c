/* runtime hooks used by the model STL (/verif/stl) */
#include <stdint.h>
int vf_expect_throw_kind = 0, vf_expect_throw_code = 0, vf_thrown = 0;
void __vf_on_throw(void);   /* optional harness hook: state-unchanged checker */
void __vf_throw(uint32_t kind, uint32_t code) {
  __CPROVER_assert(vf_expect_throw_kind != 0, "unexpected exception thrown by tulz");
  __CPROVER_assert(vf_expect_throw_kind == 0 || ((int)kind == vf_expect_throw_kind && (int)code == vf_expect_throw_code), "property: the exception thrown is the expected one (kind, code)");
  vf_thrown = 1;
  __vf_on_throw();
  __CPROVER_assume(0);
}
void __vf_expect_throw(uint32_t kind, uint32_t code) { vf_expect_throw_kind = (int)kind; vf_expect_throw_code = (int)code; }
void __vf_bound_exceeded(void *what) { __CPROVER_assert(0, "BOUND: model container capacity exceeded"); __CPROVER_assume(0); }
void __vf_bad_function_call(void) { __CPROVER_assert(0, "UB: call of an empty std::function"); __CPROVER_assume(0); }
uint32_t fprintf(void *f, void *fmt, ...) { return 0; }
void *stderr, *stdout;

/* ---- expected-delivery queue (C05/C06/C10/C13/C16): the harness announces what must be delivered, observers log what is ---- */
#ifndef VF_QN
#define VF_QN 12
#endif
int32_t eq_id[VF_QN], eq_a[VF_QN], eq_b[VF_QN]; int eq_h, eq_t;
void __vf_expect(uint32_t id, uint32_t a, uint32_t b) {
  __CPROVER_assert(eq_t < VF_QN, "BOUND: expected-delivery queue large enough"); __CPROVER_assume(eq_t < VF_QN);
  eq_id[eq_t] = (int32_t) id; eq_a[eq_t] = (int32_t) a; eq_b[eq_t] = (int32_t) b; eq_t++;
}
void __vf_log(uint32_t id, uint32_t a, uint32_t b) {
  __CPROVER_assert(eq_h < eq_t, "property: no delivery beyond the expected ones (exactly-once, never after unsubscribe/invalidate, muted observers skipped)");
  __CPROVER_assume(eq_h < eq_t);
  __CPROVER_assert(eq_id[eq_h] == (int32_t) id, "property: deliveries happen in the expected (subscription) order to the expected observers");
  __CPROVER_assert(eq_a[eq_h] == (int32_t) a && eq_b[eq_h] == (int32_t) b, "property: observer receives the argument values that were passed");
  eq_h++;
}
void __vf_expect_done(void) { __CPROVER_assert(eq_h == eq_t, "property: every expected delivery happened (no live, unmuted observer was skipped)"); eq_h = eq_t = 0; }

/* ---- regex model: truth table fixed for the run; id 0 is the constant-true ".*"; names outside the universe {"", "a", "b", "c"} are a BOUND ---- */
_Bool vf_tt[10][4]; int vf_tt_init;
_Bool nondet_bool(void);
uint8_t __vf_nondet_bool(void);
void __vf_regex_init(void) {   /* called once at the start of the harness: the table is fixed for the run */
uint8_t __vf_nondet_bool(void);
#define TT(r) vf_tt[r][0] = __vf_nondet_bool(); vf_tt[r][1] = __vf_nondet_bool(); vf_tt[r][2] = __vf_nondet_bool(); vf_tt[r][3] = __vf_nondet_bool();
  TT(1) TT(2) TT(3) TT(4)
  vf_tt_init = 1;
}
uint8_t __vf_regex_match(uint32_t id, void *p_, uint64_t n) {
  const char *p = p_;
  if (id == 0) return 1;
  __CPROVER_assert(id < 5 && vf_tt_init, "BOUND: regex id within the model (r1..r4) and table initialised");
  int k = -1;
  if (n == 0) k = 0; else if (n == 1 && p[0] == 'a') k = 1; else if (n == 1 && p[0] == 'b') k = 2; else if (n == 1 && p[0] == 'c') k = 3;
  __CPROVER_assert(k >= 0, "BOUND: regex_match on a level name outside the model universe"); __CPROVER_assume(k >= 0);
  return vf_tt[id][k];
}
void __vf_regex_set(uint32_t id, uint32_t k, uint32_t v) { vf_tt[id][k] = v & 1; }   /* cube-given (concrete) entries */
uint8_t __vf_regex_truth(uint32_t id, uint32_t k) { return id == 0 ? 1 : vf_tt[id][k]; }

/* std::chrono::system_clock::now(): arbitrary non-decreasing instants (nanoseconds) */
long nondet_long(void);
int64_t vf_clock;
uint64_t _ZNSt6chrono3_V212system_clock3nowEv(void) { long d = nondet_long(); __CPROVER_assume(d >= 0 && d < 1000000000000L); vf_clock += d; return (uint64_t) vf_clock; }

/* runtime hooks used by the model STL (/verif/stl) */
#include <stdint.h>
int vf_expect_throw_kind = 0, vf_expect_throw_code = 0, vf_thrown = 0;
void __vf_on_throw(void);   /* optional harness hook: state-unchanged checker */
void __vf_throw(uint32_t kind, uint32_t code) {
  __CPROVER_assert(vf_expect_throw_kind != 0, "unexpected exception thrown by tulz");
  __CPROVER_assert(vf_expect_throw_kind == 0 || ((int)kind == vf_expect_throw_kind && (int)code == vf_expect_throw_code), "property: the exception thrown is the expected one (kind, code)");
  vf_thrown = 1;
  __vf_on_throw();
  __CPROVER_assume(0);
}
void __vf_expect_throw(uint32_t kind, uint32_t code) { vf_expect_throw_kind = (int)kind; vf_expect_throw_code = (int)code; }
void __vf_bound_exceeded(void *what) { __CPROVER_assert(0, "BOUND: model container capacity exceeded"); __CPROVER_assume(0); }
void __vf_bad_function_call(void) { __CPROVER_assert(0, "UB: call of an empty std::function"); __CPROVER_assume(0); }
uint32_t fprintf(void *f, void *fmt, ...) { return 0; }
void *stderr, *stdout;

/* ---- expected-delivery queue (C05/C06/C10/C13/C16): the harness announces what must be delivered, observers log what is ---- */
#ifndef VF_QN
#define VF_QN 12
#endif
int32_t eq_id[VF_QN], eq_a[VF_QN], eq_b[VF_QN]; int eq_h, eq_t;
void __vf_expect(uint32_t id, uint32_t a, uint32_t b) {
  __CPROVER_assert(eq_t < VF_QN, "BOUND: expected-delivery queue large enough"); __CPROVER_assume(eq_t < VF_QN);
  eq_id[eq_t] = (int32_t) id; eq_a[eq_t] = (int32_t) a; eq_b[eq_t] = (int32_t) b; eq_t++;
}
void __vf_log(uint32_t id, uint32_t a, uint32_t b) {
  __CPROVER_assert(eq_h < eq_t, "property: no delivery beyond the expected ones (exactly-once, never after unsubscribe/invalidate, muted observers skipped)");
  __CPROVER_assume(eq_h < eq_t);
  __CPROVER_assert(eq_id[eq_h] == (int32_t) id, "property: deliveries happen in the expected (subscription) order to the expected observers");
  __CPROVER_assert(eq_a[eq_h] == (int32_t) a && eq_b[eq_h] == (int32_t) b, "property: observer receives the argument values that were passed");
  eq_h++;
}
void __vf_expect_done(void) { __CPROVER_assert(eq_h == eq_t, "property: every expected delivery happened (no live, unmuted observer was skipped)"); eq_h = eq_t = 0; }

// C++ side of the verification runtime: what harnesses may call
#pragma once
#include <stddef.h>
#include <stdint.h>
extern "C" {
int __vf_nondet_int(void);
unsigned __vf_nondet_uint(void);
unsigned long __vf_nondet_ulong(void);
unsigned char __vf_nondet_uchar(void);
short __vf_nondet_short(void);
bool __vf_nondet_bool(void);
void __vf_assume(bool c);
void __vf_check(bool c, const char *msg);   // property assertion (message must be a string literal)
void __vf_bound(bool c, const char *msg);   // stated bound: asserted (class BOUND) and then assumed
void __vf_reach(const char *msg);           // reachability witness: must be reachable, otherwise the query is vacuous
long __vf_live_allocs(void);                // heap blocks allocated and not yet freed
}

// C++ side of the verification runtime: what harnesses may call
#pragma once
#include <stddef.h>
#include <stdint.h>
extern "C" {
int __vf_nondet_int(void);
unsigned __vf_nondet_uint(void);
unsigned long __vf_nondet_ulong(void);
unsigned char __vf_nondet_uchar(void);
short __vf_nondet_short(void);
bool __vf_nondet_bool(void);
void __vf_assume(bool c);
void __vf_check(bool c, const char *msg);   // property assertion (message must be a string literal)
void __vf_bound(bool c, const char *msg);   // stated bound: asserted (class BOUND) and then assumed
void __vf_reach(const char *msg);           // reachability witness: must be reachable, otherwise the query is vacuous
long __vf_live_allocs(void);                // heap blocks allocated and not yet freed
}
extern "C" {
void __vf_expect(int id, int a, int b);      // announce a delivery that must happen (expected-delivery queue)
void __vf_log(int id, int a, int b);         // an observer reports a delivery: must be the next expected one
void __vf_expect_done(void);                 // every announced delivery must have happened
void __vf_expect_throw(int kind, int code);  // the next tulz call must throw (1 tulz::Exception(code), 2 std::invalid_argument, 3 std::out_of_range)
void __vf_on_throw(void);                    // harness hook run when the expected exception is thrown (state-unchanged check); the path ends afterwards
int __vf_cube(int i);                        // skeleton constants of the query (concrete at symbolic-execution time)
}
#ifdef VF_NATIVE
// native replay: real exceptions; classify, run the harness hook, end the run like the model does
#include <stdexcept>
#include <cstdlib>
#include <cstdio>
namespace vf {
template<class E> inline int native_code(const E &e) { if constexpr (requires { e.type; }) return e.type; else return 0; }
}
#define VF_EXPECT_THROW(kind, code, stmt) do { try { stmt; } \
  catch (const std::invalid_argument &) { if ((kind) != 2) { fprintf(stderr, "CHECK-FAILED: unexpected std::invalid_argument\n"); _Exit(1); } __vf_on_throw(); _Exit(0); } \
  catch (const std::out_of_range &) { if ((kind) != 3) { fprintf(stderr, "CHECK-FAILED: unexpected std::out_of_range\n"); _Exit(1); } __vf_on_throw(); _Exit(0); } \
  catch (const std::exception &e_) { if ((kind) != 1) { fprintf(stderr, "CHECK-FAILED: unexpected exception %s\n", e_.what()); _Exit(1); } __vf_on_throw(); _Exit(0); } } while (0)
#else
#define VF_EXPECT_THROW(kind, code, stmt) do { __vf_expect_throw(kind, code); stmt; } while (0)
#endif

/* native version of rt/cube.c (plain ints) */
#ifndef CUBE
#define CUBE 0
#endif
static const int vf_cube[] = { CUBE };
#ifdef __cplusplus
extern "C"
#endif
int __vf_cube(int i) { return vf_cube[i]; }

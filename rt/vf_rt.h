/* included by every ll2c-generated C unit */
#pragma once
#include <stdint.h>
#include <stddef.h>
#include <stdlib.h>
#include <string.h>
#ifndef __CPROVER__
/* native execution of generated C (differential validation of the translator) */
void __vf_native_assert(int c, const char *m);
void __vf_native_assume(int c);
#define __CPROVER_assert(c, m) __vf_native_assert(!!(c), (m))
#define __CPROVER_assume(c) __vf_native_assume(!!(c))
#endif
void __vf_check_ub(int c, const char *m);
void __vf_unreachable(void);
uint64_t __vf_undef_u64(void);
void *__vf_undef_ptr(void);
void __vf_bad_icall(void);
void __vf_acc(void *p, size_t n, int kind);
void *__vf_malloc(size_t n);
void *__vf_realloc(void *p, size_t n);
void __vf_free(void *p);
void __vf_memcpy(void *d, const void *s, size_t n);
void __vf_memmove(void *d, const void *s, size_t n);
void __vf_memset(void *d, int c, size_t n);
extern int __vf_cur;
extern int vf_steps;   /* scheduler step number (rt_sched.c); a constant in every unrolled iteration of the schedule loop */
#ifndef VF_PRESTART
#define VF_PRESTART 1
#endif
void __vf_lifetime_end(void *p, uint64_t n);
void __vf_racy_pre(void *p); void __vf_racy_post(void *p);
#define malloc(n) __vf_malloc(n)
#define realloc(p, n) __vf_realloc(p, n)
#define free(p) __vf_free(p)
#ifdef VF_LOOP_MEM
/* byte-loop memcpy/memset/strcmp: keeps small buffers field-sensitive when the length is symbolic (bounded by the unwinding limit) */
void *__vf_memcpy_loop(void *d, const void *s, size_t n);
#define memcpy(d, s, n) __vf_memcpy_loop(d, s, n)
#endif

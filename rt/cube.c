/* per-query skeleton constants (cube), given with -D on the CBMC command line */
#include <stdint.h>
#ifndef CUBE
#define CUBE -1,0,-1,0,-1,0,0,0
#endif
static const int vf_cube[] = { CUBE };
uint32_t __vf_cube(uint32_t i) { return (uint32_t) vf_cube[i]; }

/* synchronisation primitives for single-threaded use of code that locks (ConcurrentSubjectRouter from one thread) */
#include <stdint.h>
void __vf_mutex_lock(void *m){ __CPROVER_assert(*(uint32_t*)m == 0, "property: single-threaded use never blocks on a mutex (self-deadlock)"); *(uint32_t*)m = 1; }
void __vf_mutex_unlock(void *m){ __CPROVER_assert(*(uint32_t*)m == 1, "UB: unlock of a mutex that is not held"); *(uint32_t*)m = 0; }
void __vf_cv_wait(void *cv, void *m){ __CPROVER_assert(0, "property: single-threaded use never waits on a condition variable (it would block forever)"); __CPROVER_assume(0); }
void __vf_cv_notify_all(void *cv){} void __vf_cv_notify_one(void *cv){}

/* Happens-before race monitor (C15): vector clocks per thread and per synchronisation object; ONE watched byte, chosen
   nondeterministically among the bytes of tracked objects, so a single query covers every location. An access to the watched byte that
   is not ordered (by mutex release->acquire, thread start/join, atomics) after the last conflicting access is a data race. */
#include <stdint.h>
#include <stddef.h>
#ifndef VF_NTHR
#define VF_NTHR 3
#endif
#ifndef NSYNC
#define NSYNC 8
#endif
#ifndef NTRACK
#define NTRACK 8
#endif
extern int __vf_cur;
unsigned long nondet_ulong(void);
static unsigned vc[VF_NTHR][VF_NTHR];                 /* vc[t][u]: what t knows of u */
static void *sync_obj[NSYNC]; static unsigned sync_vc[NSYNC][VF_NTHR]; static int nsync;
static size_t tracked[NTRACK]; static int ntracked;   /* object numbers */
static size_t wobj, woff; static int w_init;
static int lw_thr = -1; static unsigned lw_clk;       /* last write to the watched byte */
static unsigned lr_clk[VF_NTHR]; static int lr_valid[VF_NTHR];
static int slot(void *o){
  for (int i = 0; i < NSYNC; i++) if (i < nsync && sync_obj[i] == o) return i;
  __CPROVER_assert(nsync < NSYNC, "BOUND: number of synchronisation objects tracked by the race monitor"); __CPROVER_assume(nsync < NSYNC);
  sync_obj[nsync] = o; return nsync++;
}
void __vf_hb_acquire(void *o){ int s = slot(o); for (int u = 0; u < VF_NTHR; u++) if (sync_vc[s][u] > vc[__vf_cur][u]) vc[__vf_cur][u] = sync_vc[s][u]; }
/* release: publish the current clock, THEN advance the own component, so that what the thread does after the release is not covered by it */
void __vf_hb_release(void *o){ int s = slot(o); for (int u = 0; u < VF_NTHR; u++) sync_vc[s][u] = vc[__vf_cur][u]; vc[__vf_cur][__vf_cur]++; }
void __vf_hb_fork(int c){ for (int u = 0; u < VF_NTHR; u++) vc[c][u] = vc[__vf_cur][u]; vc[c][c]++; vc[__vf_cur][__vf_cur]++; }
void __vf_hb_join(int c){ for (int u = 0; u < VF_NTHR; u++) if (vc[c][u] > vc[__vf_cur][u]) vc[__vf_cur][u] = vc[c][u]; }
void __vf_hb_track(void *p){ for (int i = 0; i < NTRACK; i++) if (i < ntracked && tracked[i] == __CPROVER_POINTER_OBJECT(p)) return;
  __CPROVER_assert(ntracked < NTRACK, "BOUND: tracked objects"); __CPROVER_assume(ntracked < NTRACK); tracked[ntracked++] = __CPROVER_POINTER_OBJECT(p); }
void __vf_hb_init(void){ w_init = 1; wobj = nondet_ulong(); woff = nondet_ulong(); for (int u = 0; u < VF_NTHR; u++) vc[u][u] = 1; }   /* called by the scheduler before the first step */
/* kind: 0 read, 1 write, 2 atomic read, 3 atomic write */
void __vf_acc(void *p, size_t n, int kind){
  if (kind >= 2) return;                               /* atomics synchronise (handled by __vf_atomic_op) */
  if (__CPROVER_POINTER_OBJECT(p) != wobj) return;
  _Bool tr = 0; for (int i = 0; i < NTRACK; i++) if (i < ntracked && tracked[i] == wobj) tr = 1;
  if (!tr) return;
  size_t off = __CPROVER_POINTER_OFFSET(p);
  if (!(off <= woff && woff < off + n)) return;
  int t = __vf_cur;
  if (lw_thr >= 0 && lw_thr != t) __CPROVER_assert(0, "REACH: the watched byte is accessed by two different threads");   /* vacuity guard of the monitor */
  if (lw_thr >= 0 && lw_thr != t) __CPROVER_assert(lw_clk <= vc[t][lw_thr], "property: C15 data race: access to a location last written by another thread without synchronisation in between");
  if (kind == 1) {
    for (int u = 0; u < VF_NTHR; u++) if (u != t && lr_valid[u]) __CPROVER_assert(lr_clk[u] <= vc[t][u], "property: C15 data race: write to a location read by another thread without synchronisation in between");
    lw_thr = t; lw_clk = vc[t][t]; for (int u = 0; u < VF_NTHR; u++) lr_valid[u] = 0;
  } else { lr_clk[t] = vc[t][t]; lr_valid[t] = 1; }
}

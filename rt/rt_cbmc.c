/* runtime for CBMC: nondet hooks, UB hooks, allocation model with live-block counter */
#include <stdint.h>
#include <stddef.h>
#include <stdlib.h>
#include <string.h>
int nondet_int(void); unsigned nondet_uint(void); unsigned long nondet_ulong(void); unsigned char nondet_uchar(void);
short nondet_short(void); _Bool nondet_bool(void); void *nondet_ptr(void);
int __vf_cur;
uint32_t __vf_nondet_int(void){ uint32_t vf_nd = nondet_uint(); return vf_nd; }
uint32_t __vf_nondet_uint(void){ uint32_t vf_nd = nondet_uint(); return vf_nd; }
uint64_t __vf_nondet_ulong(void){ uint64_t vf_nd = nondet_ulong(); return vf_nd; }
uint8_t __vf_nondet_uchar(void){ uint8_t vf_nd = nondet_uchar(); return vf_nd; }
uint16_t __vf_nondet_short(void){ uint16_t vf_nd = (uint16_t)nondet_short(); return vf_nd; }
uint8_t __vf_nondet_bool(void){ uint8_t vf_nd = nondet_bool(); return vf_nd; }
void __vf_check_ub(int c, const char *m){ __CPROVER_assert(c, "UB: undefined behaviour (overflow / shift / division / trap)"); }
void __vf_unreachable(void){ __CPROVER_assert(0, "UB: 'unreachable' reached"); __CPROVER_assume(0); }
uint64_t __vf_undef_u64(void){ return nondet_ulong(); }
#ifdef VF_UNDEF_PTR_NULL
/* an uninitialised pointer is the null pointer: a dereference is still reported (null), but CBMC's value sets stay small
   (a nondeterministic pointer makes every later dereference range over every object in scope: measured 4x on the ThreadPool harness) */
void *__vf_undef_ptr(void){ return (void*)0; }
#else
void *__vf_undef_ptr(void){ return nondet_ptr(); }
#endif
void __vf_bad_icall(void){ __CPROVER_assert(0, "UB: indirect call through an invalid pointer or to a function of a different type"); __CPROVER_assume(0); }
void __assert_fail(void *a, void *b, uint32_t c, void *d){ __CPROVER_assert(0, "tulz assert() failed"); __CPROVER_assume(0); }
void __cxa_pure_virtual(void){ __CPROVER_assert(0, "UB: pure virtual call"); __CPROVER_assume(0); }

long vf_live;
#ifndef VF_MAXB
#define VF_MAXB 64
#endif
void *__vf_malloc(size_t n){
  void *p;
#ifndef VF_ALLOC_SPLIT
  p = malloc(n);   /* sizes are concrete at symbolic-execution time (capacities are partitioned) */
#else
  {
    /* CBMC needs constant object sizes: case split up to the stated bound */
    __CPROVER_assert(n <= VF_MAXB, "BOUND: allocation size within VF_MAXB");
    __CPROVER_assume(n <= VF_MAXB);
    p = 0;
    for (size_t k = 0; k <= VF_MAXB; k++) if (n == k) { p = malloc(k); }
  }
#endif
  __CPROVER_assume(p != 0);
  vf_live++;
  return p;
}
void __vf_free(void *p){ if (p) vf_live--; free(p); }
void *__vf_realloc(void *o, size_t n){
  void *p = __vf_malloc(n);
  if (o) {
    size_t os = __CPROVER_OBJECT_SIZE(o);
    __CPROVER_assert(__CPROVER_POINTER_OFFSET(o) == 0, "realloc of a pointer that is not the start of a block");
    size_t c = os < n ? os : n;
    if (c) memcpy(p, o, c);
    __vf_free(o);
  }
  return p;
}
uint64_t __vf_live_allocs(void){ return (uint64_t)vf_live; }
void __vf_memcpy(void *d, const void *s, size_t n){ if (n) memcpy(d, s, n); }
void __vf_memmove(void *d, const void *s, size_t n){ if (n) memmove(d, s, n); }
void __vf_memset(void *d, int c, size_t n){ if (n) memset(d, c, n); }
#ifdef VF_NEW_HOOK
void __vf_new_hook(void *p);
void *_Znwm(uint64_t n){ void *p = __vf_malloc(n); __vf_new_hook(p); return p; }
#else
void *_Znwm(uint64_t n){ return __vf_malloc(n); }
#endif
void *_Znam(uint64_t n){ return __vf_malloc(n); }
void _ZdlPv(void *p){ __vf_free(p); }
void _ZdaPv(void *p){ __vf_free(p); }
void _ZdlPvm(void *p, uint64_t n){ __vf_free(p); }
uint32_t __vf_atexit(void *f){ return 0; }   /* destructors of statics at process exit are outside every claim */
/* end of an automatic object's lifetime: its bytes become arbitrary (models stack reuse; a dangling read sees garbage) */
void __vf_lifetime_end(void *p, uint64_t n){ if (n != (uint64_t)-1 && n > 0 && n <= 256) __CPROVER_havoc_slice(p, n); }
void *__vf_memcpy_loop(void *d, const void *s, size_t n){ for (size_t i = 0; i < n; i++) ((char*)d)[i] = ((const char*)s)[i]; return d; }

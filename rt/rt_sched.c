/* Sequentialised threads: scheduler + synchronisation primitives for ll2c --co units.
   Schedule = VF_K nondeterministic thread choices (solver variables); context switches at synchronisation operations only
   (side condition data-race freedom is checked by the happens-before monitor, rt_hb.c). */
#include <stdint.h>
#include <stddef.h>
#include <stdlib.h>
#ifndef VF_NTHR
#define VF_NTHR 3
#endif
#ifndef VF_K
#define VF_K 24
#endif
int nondet_int(void); _Bool nondet_bool(void);
extern int __vf_cur;
enum { W_NONE, W_MUTEX, W_CV, W_JOIN, W_UNTIL };
int vf_started[VF_NTHR], vf_done[VF_NTHR], w_kind[VF_NTHR], w_notified[VF_NTHR], w_arg[VF_NTHR];
void *w_obj[VF_NTHR], *w_mtx[VF_NTHR];
void *vf_fn[VF_NTHR], *vf_arg[VF_NTHR];
#ifndef VF_PRESTART
#define VF_PRESTART 1
#endif
int vf_nthreads = VF_PRESTART;
uint32_t __vf_prestart(void){ return VF_PRESTART; }
int vf_steps, vf_parks; uint32_t vf_no_park;      /* statistics / "must not block" mode */
#ifdef VF_SPURIOUS
int vf_spurious_left = VF_SPURIOUS;
#endif
void vf_on_park(uint32_t t);             /* harness hooks (plain functions) */
void vf_final(void);
void __vf_co_start(int t); int __vf_co_resume(void);
void __vf_global_ctors(void);
/* happens-before monitor hooks (no-ops unless rt_hb.c is linked with VF_HB) */
void __vf_hb_acquire(void *obj); void __vf_hb_release(void *obj); void __vf_hb_fork(int child); void __vf_hb_join(int child); void __vf_hb_init(void);

/* ---- mutex ---- */
void __vf_mutex_lock_pre(void *m){ w_kind[__vf_cur] = W_MUTEX; w_obj[__vf_cur] = m; }
void __vf_mutex_lock_post(void *m){
  __CPROVER_assert(*(uint32_t*)m == 0, "rt: mutex free when acquired");
  *(uint32_t*)m = (uint32_t)__vf_cur + 1; w_kind[__vf_cur] = W_NONE; __vf_hb_acquire(m);
}
void __vf_mutex_unlock(void *m){
  __CPROVER_assert(*(uint32_t*)m == (uint32_t)__vf_cur + 1, "UB: unlock of a mutex that the calling thread does not hold");
  __vf_hb_release(m); *(uint32_t*)m = 0;
}
/* ---- condition variable ---- */
void __vf_cv_wait_pre(void *cv, void *m){
  __CPROVER_assert(*(uint32_t*)m == (uint32_t)__vf_cur + 1, "UB: condition_variable::wait without holding the mutex");
  __CPROVER_assert(!vf_no_park, "property: this request must be granted without waiting");
  __vf_hb_release(m); *(uint32_t*)m = 0;
  w_kind[__vf_cur] = W_CV; w_obj[__vf_cur] = cv; w_mtx[__vf_cur] = m; w_notified[__vf_cur] = 0; vf_parks++;
  vf_on_park((uint32_t)__vf_cur);
}
void __vf_cv_wait_post(void *cv, void *m){ *(uint32_t*)m = (uint32_t)__vf_cur + 1; w_kind[__vf_cur] = W_NONE; __vf_hb_acquire(m); }
void __vf_cv_notify_all_pre(void *cv){ }
void __vf_cv_notify_all_post(void *cv){ for (int t = 0; t < VF_NTHR; t++) if (w_kind[t] == W_CV && w_obj[t] == cv) w_notified[t] = 1; }
void __vf_cv_notify_one_pre(void *cv){ }
void __vf_cv_notify_one_post(void *cv){
  int any = 0; for (int t = 0; t < VF_NTHR; t++) if (w_kind[t] == W_CV && w_obj[t] == cv && !w_notified[t]) any = 1;
  if (any) { int c = nondet_int(); __CPROVER_assume(c >= 0 && c < VF_NTHR && w_kind[c] == W_CV && w_obj[c] == cv && !w_notified[c]); w_notified[c] = 1; }
}
/* ---- threads ---- */
uint32_t __vf_thread_create(void *fn, void *arg){
  __CPROVER_assert(vf_nthreads < VF_NTHR, "BOUND: number of threads within VF_NTHR"); __CPROVER_assume(vf_nthreads < VF_NTHR);
  int id = vf_nthreads++; vf_fn[id] = fn; vf_arg[id] = arg; vf_started[id] = 1; w_kind[id] = W_NONE; __vf_co_start(id); __vf_hb_fork(id);
  return (uint32_t)id;
}
void *__vf_thread_fn(uint32_t t){ return vf_fn[t]; }
void *__vf_thread_arg(uint32_t t){ return vf_arg[t]; }
void __vf_thread_exit(uint32_t t){ }
void __vf_thread_join_pre(uint32_t id){ w_kind[__vf_cur] = W_JOIN; w_arg[__vf_cur] = (int)id; }
void __vf_thread_join_post(uint32_t id){ w_kind[__vf_cur] = W_NONE; __vf_hb_join((int)id); }
void __vf_yield_pre(void){ w_kind[__vf_cur] = W_NONE; }
void __vf_yield_post(void){ }
/* harness-level blocking: wait until *(int*)counter >= n (barriers, "task may finish now") */
void __vf_wait_until_pre(void *counter, uint32_t n){ w_kind[__vf_cur] = W_UNTIL; w_obj[__vf_cur] = counter; w_arg[__vf_cur] = (int)n; }
void __vf_wait_until_post(void *counter, uint32_t n){ w_kind[__vf_cur] = W_NONE; }
void __vf_racy_pre(void *a){ w_kind[__vf_cur] = W_NONE; }
void __vf_racy_post(void *a){ }
void __vf_atomic_op_pre(void *a){ } 
void __vf_atomic_op_post(void *a){ __vf_hb_acquire(a); __vf_hb_release(a); }
void __vf_terminate(void){ __CPROVER_assert(0, "std::terminate called (joinable std::thread destroyed or assigned, or join of a non-joinable thread)"); __CPROVER_assume(0); }
uint32_t __vf_self(void){ return (uint32_t)__vf_cur; }

static _Bool enabled(int t, _Bool spurious){
  if (!vf_started[t] || vf_done[t]) return 0;
  switch (w_kind[t]) {
    case W_NONE: return 1;
    case W_MUTEX: return *(uint32_t*)w_obj[t] == 0;
    case W_CV: return (w_notified[t] || spurious) && *(uint32_t*)w_mtx[t] == 0;
    case W_JOIN: return vf_done[w_arg[t]];
    default: return *(int32_t*)w_obj[t] >= w_arg[t];
  }
}
#ifdef VF_PREFIX
static const int vf_prefix[] = { VF_PREFIX };
#define VF_PREFIX_LEN ((int)(sizeof vf_prefix / sizeof vf_prefix[0]))
#else
static const int vf_prefix[1] = {0};
#define VF_PREFIX_LEN 0
#endif
#define RUN(i) case i: if (vf_started[i]) { __vf_cur = i; if (!__vf_co_resume()) vf_done[i] = 1; } break;   /* the test is implied by enabled(t); it lets symbolic execution skip threads that cannot exist yet */
#define FOR_T(X) X(0) X(1) X(2) X(3) X(4) X(5)
#define UNF(j) if (j < VF_NTHR && vf_started[j] && !vf_done[j]) all = 0;
#define LIV(j) if (j < VF_NTHR && enabled(j, 0)) live = 1;
/* the only loop of this function is the schedule loop: --unwindset vf_run.0:VF_K+2 */
void vf_run(void){
  for (vf_steps = 0; vf_steps < VF_K; vf_steps++) {
    _Bool all = 1; FOR_T(UNF)
    if (all) break;
#ifdef VF_LIVENESS
    { _Bool live = 0; FOR_T(LIV)
      __CPROVER_assert(live, "property: no deadlock / lost wake-up (some unfinished thread can always make progress)"); __CPROVER_assume(live); }
    _Bool sp = 0;
#elif defined(VF_SPURIOUS)
    _Bool sp = nondet_bool(); if (vf_spurious_left <= 0) sp = 0;
#else
    _Bool sp = 0;
#endif
    int vf_nd = nondet_int(); int t = vf_nd; __CPROVER_assume(t >= 0 && t < VF_NTHR);   /* `vf_nd` in vf_run = the schedule, read back from counterexample traces */
    if (vf_steps < VF_PREFIX_LEN) __CPROVER_assume(t == vf_prefix[vf_steps]);
    __CPROVER_assume(enabled(t, sp));
#ifdef VF_SPURIOUS
    if (w_kind[t] == W_CV && !w_notified[t]) vf_spurious_left--;
#endif
    switch (t) {
      RUN(0)
#if VF_NTHR > 1
      RUN(1)
#endif
#if VF_NTHR > 2
      RUN(2)
#endif
#if VF_NTHR > 3
      RUN(3)
#endif
#if VF_NTHR > 4
      RUN(4)
#endif
#if VF_NTHR > 5
      RUN(5)
#endif
      default: break;
    }
  }
}
int main(void){
  __vf_hb_init();
  __vf_global_ctors();
  for (int j = 0; j < VF_PRESTART; j++) { vf_started[j] = 1; __vf_co_start(j); }
  vf_run();
  { _Bool all = 1; FOR_T(UNF)
#if defined(VF_LIVENESS) && !defined(VF_PREFIX_ONLY)
    __CPROVER_assert(all, "BOUND: schedule length VF_K sufficient for every thread to finish");
#endif
    if (all) { __CPROVER_assert(0, "REACH: all threads finished"); vf_final(); }
  }
  return 0;
}

#!/usr/bin/env python3
"""ll2c: LLVM-14 textual IR (typed pointers) -> C for CBMC.

One C statement per IR instruction, typed emission:
  * named / literal struct types become C structs with the same field order (fN), arrays are
    wrapped in a struct { T e[N]; } so that they are first-class values,
  * every pointer is `void*` and is cast at each use,
  * iN is carried in the next wider unsigned C type (i1 in uint8_t, masked with &1 on use),
  * indirect calls are emitted as an explicit dispatch over the address-taken functions whose
    normalised IR signature matches, ending in __vf_bad_icall() (UB: call through a pointer of a
    different function type),
  * undef / poison operands become fresh nondeterministic values,
  * nsw add/sub/mul become overflow checks (__vf_check_ub) when ubchk is on,
  * optional --acc: loads/stores inside functions whose name matches a prefix are reported to
    __vf_acc(addr,size,is_write) (race / lock-discipline monitors),
  * optional --co: functions from which a yield primitive is reachable are emitted as resumable
    step functions (per-thread frame structs, `pc` + switch), so that a scheduler written in C
    can interleave them; everything else stays plain C.
"""
import re, sys, ast, struct as _struct

TOK = re.compile(r'''\s*(?:
  (?P<str>c"(?:[^"\\]|\\[0-9A-Fa-f]{2}|\\\\)*") |
  (?P<local>%(?:"[^"]*"|[-a-zA-Z$._0-9]+)) |
  (?P<glob>@(?:"[^"]*"|[-a-zA-Z$._0-9]+)) |
  (?P<meta>![-a-zA-Z$._0-9]*) |
  (?P<attr>\#[0-9]+) |
  (?P<num>-?[0-9]+\.[0-9]*(?:e[-+]?[0-9]+)?|0x[KLMHR]?[0-9A-Fa-f]+|-?[0-9]+) |
  (?P<dots>\.\.\.) |
  (?P<word>[a-zA-Z_][a-zA-Z0-9_.]*) |
  (?P<qstr>"[^"]*") |
  (?P<p>[][(){}<>,=*:|])
)''', re.X)


def tokenize(s):
    out = []
    i = 0
    n = len(s)
    while i < n:
        m = TOK.match(s, i)
        if not m:
            rest = s[i:].lstrip()
            if rest == '' or rest.startswith(';'):
                break
            raise SyntaxError('tok: ' + s[i:i + 60])
        i = m.end()
        out.append((m.lastgroup, m.group(m.lastgroup)))
    return out


class P:
    def __init__(self, toks):
        self.t = toks
        self.i = 0

    def peek(self, k=0):
        return self.t[self.i + k] if self.i + k < len(self.t) else (None, None)

    def next(self):
        x = self.t[self.i]
        self.i += 1
        return x

    def eat(self, v):
        if self.peek()[1] == v:
            self.i += 1
            return True
        return False

    def expect(self, v):
        if not self.eat(v):
            raise SyntaxError('expected %r got %r in %r' % (v, self.peek(), self.t[max(0, self.i - 6):self.i + 6]))

    def done(self):
        return self.i >= len(self.t)


# types: ('void',) ('int',n) ('float',) ('double',) ('ptr',T) ('named',name) ('struct',(T..),packed)
#        ('array',n,T) ('func',ret,(T..),vararg) ('label',) ('metadata',) ('opaque',)
def parse_type(p):
    k, v = p.next()
    if k == 'word':
        if v == 'void':
            t = ('void',)
        elif re.fullmatch(r'i\d+', v):
            t = ('int', int(v[1:]))
        elif v in ('float', 'double'):
            t = (v,)
        elif v == 'x86_fp80':
            t = ('fp80',)
        elif v == 'label':
            t = ('label',)
        elif v == 'metadata':
            t = ('metadata',)
        elif v == 'opaque':
            t = ('opaque',)
        elif v == 'ptr':
            t = ('ptr', ('int', 8))
        else:
            raise SyntaxError('type word ' + v)
    elif k == 'local':
        t = ('named', v)
    elif v == '{':
        fs = []
        if not p.eat('}'):
            while True:
                fs.append(parse_type(p))
                if p.eat('}'):
                    break
                p.expect(',')
        t = ('struct', tuple(fs), False)
    elif v == '<':
        if p.peek()[1] == '{':
            p.next()
            fs = []
            if not p.eat('}'):
                while True:
                    fs.append(parse_type(p))
                    if p.eat('}'):
                        break
                    p.expect(',')
            p.expect('>')
            t = ('struct', tuple(fs), True)
        else:
            n = int(p.next()[1])
            assert p.next()[1] == 'x'
            e = parse_type(p)
            p.expect('>')
            t = ('vector', n, e)
    elif v == '[':
        n = int(p.next()[1])
        assert p.next()[1] == 'x'
        e = parse_type(p)
        p.expect(']')
        t = ('array', n, e)
    else:
        raise SyntaxError('type tok %r' % ((k, v),))
    while True:
        if p.eat('*'):
            t = ('ptr', t)
        elif p.peek()[1] == '(':
            p.next()
            ps = []
            va = False
            if not p.eat(')'):
                while True:
                    if p.eat('...'):
                        va = True
                    else:
                        ps.append(parse_type(p))
                        skip_attrs(p)
                    if p.eat(')'):
                        break
                    p.expect(',')
            t = ('func', t, tuple(ps), va)
        else:
            break
    return t


PARAM_ATTRS = {'noundef', 'nonnull', 'nocapture', 'readonly', 'writeonly', 'readnone', 'noalias', 'returned',
               'signext', 'zeroext', 'immarg', 'nofree', 'inreg', 'nest', 'swiftself', 'swifterror', 'nonlazybind'}


def skip_attrs(p):
    """skips parameter / return attributes; returns the byval type if there was one"""
    byval = None
    while True:
        k, v = p.peek()
        if k == 'word' and v in PARAM_ATTRS:
            p.next()
        elif k == 'word' and v in ('align', 'dereferenceable', 'dereferenceable_or_null'):
            p.next()
            if p.eat('('):
                p.next()
                p.expect(')')
            else:
                p.next()
        elif k == 'word' and v in ('sret', 'byval', 'byref', 'inalloca', 'preallocated', 'elementtype'):
            p.next()
            p.expect('(')
            t = parse_type(p)
            p.expect(')')
            if v == 'byval':
                byval = t
        else:
            break
    return byval


LIBC_KNOWN = {'malloc', 'free', 'realloc', 'calloc', 'memcpy', 'memmove', 'memset', 'strlen', 'strcmp', 'strstr',
              'strchr', 'strncmp', 'memcmp', 'abort', 'exit'}


class Tr:
    def __init__(self, text, ubchk=False, acc_prefixes=(), co=False, yield_prims=(), nthr_macro='VF_NTHR', lifetime_havoc=False, racy_yield=False, step_prune=False, static_new=False):
        self.types = {}
        self.globals = {}
        self.decls = {}
        self.funcs = []
        self.anon = {}
        self.aliases = {}
        self.addr_taken = set()
        self.ubchk = ubchk
        self.acc_prefixes = tuple(acc_prefixes)
        self.co_enabled = co
        self.yield_prims = set('@' + y.lstrip('@') for y in yield_prims)
        self.nthr_macro = nthr_macro
        self.lifetime_havoc = lifetime_havoc
        self.racy_yield = racy_yield
        self.step_prune = step_prune
        self.static_new = static_new
        self.snew = []
        self.racy_fields = set()
        self.defined = set()
        self.cur_co = False
        self.co_prefix = ''
        self.local_vals = set()
        self.racy_vals = set()
        self.parse(text)
        self.find_racy_fields()

    def find_racy_fields(self):
        """marker functions `__vf_racy_field_*` (harness) return the address of a field: accesses to that (struct type, index path) become scheduling points"""
        for (nm, rt, ps, va, body) in self.funcs:
            if '__vf_racy_field' not in nm:
                continue
            for ln in body:
                m = re.search(r'getelementptr inbounds (%[-a-zA-Z$._0-9"]+|%"[^"]+"), .*?, i64 0((?:, i32 \d+)+)', ln)
                if m:
                    self.racy_fields.add((m.group(1), tuple(int(x) for x in re.findall(r'i32 (\d+)', m.group(2)))))

    # ---------- C names ----------
    RENAME = {'atexit': '__vf_atexit', '__cxa_atexit': '__vf_cxa_atexit'}

    def cid(self, n):
        n = n[1:]
        if n.startswith('"'):
            n = n[1:-1]
        if n in self.RENAME:
            return self.RENAME[n]
        return re.sub(r'[^A-Za-z0-9_]', lambda m: '_%02x' % ord(m.group()), n)

    def ctype(self, t):
        k = t[0]
        if k == 'void':
            return 'void'
        if k == 'int':
            n = t[1]
            if n == 1:
                return 'uint8_t'
            for w in (8, 16, 32, 64):
                if n <= w:
                    return 'uint%d_t' % w
            if n <= 128:
                return 'unsigned __int128'
            raise NotImplementedError(t)
        if k in ('float', 'double'):
            return k
        if k == 'fp80':
            return 'long double'
        if k == 'ptr':
            return 'void*'
        if k == 'named':
            return 'struct T_' + self.cid(t[1])
        if k in ('struct', 'array'):
            key = repr(t)
            if key not in self.anon:
                nm = 'A%d' % len(self.anon)
                self.anon[key] = nm
                for f in (t[1] if k == 'struct' else [t[2]]):
                    self.ctype(f)
            return 'struct ' + self.anon[key]
        if k == 'func':
            return 'void'
        if k == 'opaque':
            return 'void'
        raise NotImplementedError(t)

    def globals_by_cid(self):
        if not hasattr(self, '_gbc'):
            self._gbc = {self.cid(n): v for n, v in self.globals.items()}
        return self._gbc

    def resolve(self, t):
        while t[0] == 'named':
            t = self.types[t[1]]
        return t

    def sizeof(self, t):
        return 'sizeof(%s)' % self.ctype(t)

    # ---------- parsing ----------
    def parse(self, text):
        lines = text.split('\n')
        i = 0
        while i < len(lines):
            ln = lines[i]
            if ln.startswith('%') and ' = type ' in ln:
                p = P(tokenize(ln))
                nm = p.next()[1]
                p.expect('=')
                p.next()
                self.types[nm] = parse_type(p)
            elif ln.startswith('@'):
                self.parse_global(ln)
            elif ln.startswith('declare'):
                self.parse_decl(ln)
            elif ln.startswith('define'):
                j = i + 1
                while lines[j] != '}':
                    j += 1
                self.parse_func(ln, lines[i + 1:j])
                i = j
            i += 1

    def parse_decl(self, ln):
        p = P(tokenize(ln))
        p.next()
        rt = None
        while p.peek()[0] != 'glob':
            save = p.i
            try:
                skip_attrs(p)
                rt = parse_type(p)
                if p.peek()[0] == 'glob':
                    break
                p.i = save + 1
            except (SyntaxError, AssertionError, ValueError):
                p.i = save + 1
        nm = p.next()[1]
        p.expect('(')
        ps = []
        va = False
        if not p.eat(')'):
            while True:
                if p.eat('...'):
                    va = True
                else:
                    ps.append(parse_type(p))
                    skip_attrs(p)
                if p.eat(')'):
                    break
                p.expect(',')
        self.decls[nm] = ('func', rt, tuple(ps), va)

    def parse_global(self, ln):
        if ln.startswith('@llvm.'):
            if ln.startswith('@llvm.global_ctors'):
                self.ctors = re.findall(r'void \(\)\* (@[-a-zA-Z$._0-9]+)', ln)
            return
        ln = re.sub(r' section "[^"]*"', '', ln)
        ln = re.sub(r' comdat(\s*\([^)]*\))?', '', ln)
        ln = re.sub(r', (align|!dbg|!tbaa) [^,]*', '', ln)
        p = P(tokenize(ln))
        nm = p.next()[1]
        p.expect('=')
        const = False
        while True:
            k, v = p.peek()
            if v in ('constant', 'global'):
                const = (v == 'constant')
                p.next()
                break
            if v == 'alias':
                p.next()
                parse_type(p)
                p.expect(',')
                parse_type(p)
                tgt = p.next()[1]
                self.aliases[nm] = tgt
                return
            p.next()
        t = parse_type(p)
        init = None
        if not p.done() and p.peek()[1] != ',':
            init = self.parse_const(p, t)
        self.globals[nm] = (t, init, const)

    def parse_const(self, p, t):
        k, v = p.peek()
        if k == 'num':
            p.next()
            if t[0] in ('float', 'double', 'fp80'):
                if v.startswith('0xK'):
                    raise NotImplementedError('x86_fp80 constant')
                if v.startswith('0x'):
                    return ('lit', repr(_struct.unpack('>d', bytes.fromhex(v[2:].rjust(16, '0')))[0]) .replace('inf', '(1.0/0.0)').replace('nan', '(0.0/0.0)'))
                return ('lit', v)
            return ('lit', self.intlit(int(v), t))
        if v in ('true', 'false'):
            p.next()
            return ('lit', '1' if v == 'true' else '0')
        if v == 'null':
            p.next()
            return ('lit', '((void*)0)')
        if v in ('undef', 'poison'):
            p.next()
            return ('undef', t)
        if v == 'zeroinitializer':
            p.next()
            return ('zero', t)
        if k == 'glob':
            p.next()
            return ('addr', v)
        if k == 'local':
            p.next()
            return ('local', v)
        if k == 'str':
            p.next()
            raw = v[2:-1]
            bs = []
            j = 0
            while j < len(raw):
                if raw[j] == '\\':
                    if raw[j + 1] == '\\':
                        bs.append(92)
                        j += 2
                    else:
                        bs.append(int(raw[j + 1:j + 3], 16))
                        j += 3
                else:
                    bs.append(ord(raw[j]))
                    j += 1
            return ('bytes', bs)
        if v in ('{', '[', '<'):
            p.next()
            packed = False
            if v == '<' and p.peek()[1] == '{':
                p.next()
                packed = True
                close = '}'
            else:
                close = {'{': '}', '[': ']', '<': '>'}[v]
            es = []
            if not p.eat(close):
                while True:
                    et = parse_type(p)
                    es.append(self.parse_const(p, et))
                    if p.eat(close):
                        break
                    p.expect(',')
            if packed:
                p.expect('>')
            return ('agg', es)
        if k == 'word' and v in ('getelementptr', 'bitcast', 'inttoptr', 'ptrtoint', 'addrspacecast', 'trunc', 'zext', 'sext'):
            p.next()
            if v == 'getelementptr':
                p.eat('inbounds')
                p.expect('(')
                st = parse_type(p)
                p.expect(',')
                bt = parse_type(p)
                base = self.parse_const(p, bt)
                idx = []
                while p.eat(','):
                    p.eat('inrange')
                    it = parse_type(p)
                    idx.append(self.parse_const(p, it))
                p.expect(')')
                return ('gep', st, base, idx)
            p.expect('(')
            ft = parse_type(p)
            val = self.parse_const(p, ft)
            assert p.next()[1] == 'to'
            tt = parse_type(p)
            p.expect(')')
            return ('cast', v, val, tt, ft)
        if k == 'word' and v in ('add', 'sub', 'mul', 'and', 'or', 'xor', 'shl', 'lshr'):
            p.next()
            while p.peek()[1] in ('nsw', 'nuw', 'exact'):
                p.next()
            p.expect('(')
            at = parse_type(p)
            a = self.parse_const(p, at)
            p.expect(',')
            bt = parse_type(p)
            b = self.parse_const(p, bt)
            p.expect(')')
            return ('binop', v, a, b, at)
        if k == 'word' and v == 'icmp':
            p.next()
            pred = p.next()[1]
            p.expect('(')
            at = parse_type(p)
            a = self.parse_const(p, at)
            p.expect(',')
            bt = parse_type(p)
            b = self.parse_const(p, bt)
            p.expect(')')
            return ('icmp', pred, a, b, at)
        raise SyntaxError('const %r' % ((k, v),))

    def intlit(self, n, t):
        w = t[1] if t[0] == 'int' else 64
        n &= (1 << w) - 1
        if w > 64:
            hi, lo = n >> 64, n & ((1 << 64) - 1)
            return '(((unsigned __int128)%dULL << 64) | %dULL)' % (hi, lo)
        return '%dU' % n if w <= 32 else '%dULL' % n

    def cexpr(self, c):
        k = c[0]
        if k == 'lit':
            return c[1]
        if k == 'addr':
            n = self.aliases.get(c[1], c[1])
            if n not in self.globals:
                self.addr_taken.add(n)
                return '((void*)%s)' % self.cid(n)
            return '((void*)&%s)' % self.cid(n)
        if k == 'local':
            return self.lname(c[1])
        if k == 'undef':
            return self.undef(c[1])
        if k == 'zero':
            if c[1][0] == 'int':
                return '0'
            if c[1][0] == 'ptr':
                return '((void*)0)'
            if c[1][0] in ('float', 'double', 'fp80'):
                return '0.0'
            return '(%s){0}' % self.ctype(c[1])
        if k == 'gep':
            return self.gep_expr(c[1], self.cexpr(c[2]), [self.cexpr(i) for i in c[3]])
        if k == 'cast':
            op, val, tt = c[1], c[2], c[3]
            if op == 'ptrtoint':
                return '((%s)(uintptr_t)%s)' % (self.ctype(tt), self.cexpr(val))
            if op == 'inttoptr':
                return '((void*)(uintptr_t)%s)' % self.cexpr(val)
            if op in ('trunc', 'zext'):
                return '((%s)%s)' % (self.ctype(tt), self.cexpr(val))
            if op == 'sext':
                return '((%s)(int%d_t)%s)' % (self.ctype(tt), c[4][1], self.cexpr(val))
            return self.cexpr(val)
        if k == 'binop':
            m = {'add': '+', 'sub': '-', 'mul': '*', 'and': '&', 'or': '|', 'xor': '^', 'shl': '<<', 'lshr': '>>'}[c[1]]
            ct = self.ctype(c[4])
            return '((%s)((%s)%s %s (%s)%s))' % (ct, ct, self.cexpr(c[2]), m, ct, self.cexpr(c[3]))
        if k == 'icmp':
            m = {'eq': '==', 'ne': '!='}[c[1]]
            return '(%s %s %s)' % (self.cexpr(c[2]), m, self.cexpr(c[3]))
        if k == 'agg':
            raise NotImplementedError('aggregate constant as operand')
        raise NotImplementedError(c)

    def cinit(self, c, t):
        k = c[0]
        rt = self.resolve(t)
        if k == 'bytes':
            return '{{' + ','.join(str(b) for b in c[1]) + '}}'
        if k == 'agg':
            if rt[0] == 'array':
                return '{{' + ','.join(self.cinit(e, rt[2]) for e in c[1]) + '}}'
            return '{' + ','.join(self.cinit(e, ft) for e, ft in zip(c[1], rt[1])) + '}'
        if k in ('zero', 'undef'):
            return '{0}' if rt[0] in ('struct', 'array') else '0'
        return self.cexpr(c)

    def agg_operand(self, c, t):
        """aggregate constant used as an instruction operand -> compound literal"""
        return '(%s)%s' % (self.ctype(t), self.cinit(c, t))

    def undef(self, t):
        rt = self.resolve(t)
        if rt[0] == 'int':
            return '((%s)__vf_undef_u64())' % self.ctype(t)
        if rt[0] == 'ptr':
            return '__vf_undef_ptr()'
        if rt[0] in ('float', 'double', 'fp80'):
            return '((%s)0)' % self.ctype(t)
        return '(%s){0}' % self.ctype(t)

    def gep_expr(self, st, base, idx):
        if len(idx) == 1:
            # plain pointer arithmetic: p + 0 is p (also for a null p, which C++ allows and CBMC's pointer check would flag)
            i0 = self.sx(idx[0])
            if i0 == '0':
                return '((void*)%s)' % base
            if not re.fullmatch(r'-?\d+', i0):
                return '((%s) == 0 ? (void*)%s : (void*)&((%s*)%s)[%s])' % (i0, base, self.ctype(st) if st[0] != 'func' else 'char', base, i0)
        e = '((%s*)%s)[%s]' % (self.ctype(st) if st[0] != 'func' else 'char', base, self.sx(idx[0]))
        t = st
        for i in idx[1:]:
            rt = self.resolve(t)
            if rt[0] == 'struct':
                m = re.fullmatch(r'(\d+)U(LL)?', i)
                if not m:
                    raise NotImplementedError('non-constant struct index ' + i)
                fi = int(m.group(1))
                e += '.f%d' % fi
                t = rt[1][fi]
            elif rt[0] == 'array':
                e += '.e[%s]' % self.sx(i)
                t = rt[2]
            else:
                raise NotImplementedError(('gep into', rt))
        return '((void*)&%s)' % e

    def sx(self, i):
        m = re.fullmatch(r'(\d+)U(LL)?', i)
        if m:
            v = int(m.group(1))
            if v >= 1 << 63:
                v -= 1 << 64
            elif m.group(2) is None and v >= 1 << 31:
                v -= 1 << 32
            return str(v)
        return '(int64_t)(%s)' % i

    # ---------- functions ----------
    def lname(self, n):
        if self.co_prefix and n in self.local_vals:
            return 'l_' + self.cid(n)   # block-local temporary of a resumable function: not live across a scheduling point
        return self.co_prefix + 'v_' + self.cid(n)

    def phiname(self, n):
        return ('p_' if self.co_prefix else 'v_') + self.cid(n) + '_phi'

    def compute_locals(self, nm, ps, blocks):
        """values of a resumable function that need no frame slot: defined and used in one basic block with no scheduling point in between"""
        self.local_vals = set()
        if not self.cur_co:
            return
        params = set(a for _, a in ps)
        racy = set()
        name_re = re.compile(r'%(?:"[^"]*"|[-a-zA-Z$._0-9]+)')
        info = {}   # name -> [def block, def idx, set(use blocks), last use idx in def block, is_phi]
        ylines = {}
        for bl, lines in blocks:
            ys = []
            for i, ln in enumerate(lines):
                m = re.match(r'\s*(%(?:"[^"]*"|[-a-zA-Z$._0-9]+)) = (\w+)', ln)
                d = m.group(1) if m else None
                if d:
                    info.setdefault(d, [bl, i, set(), i, m.group(2) == 'phi'])
                    info[d][0], info[d][1], info[d][4] = bl, i, (m.group(2) == 'phi')
                body = ln[m.end(1):] if m else ln
                body = re.sub(r'label %(?:"[^"]*"|[-a-zA-Z$._0-9]+)', '', body)
                is_phi = bool(m and m.group(2) == 'phi')
                for u in name_re.findall(body):
                    if u in self.types:
                        continue
                    e = info.setdefault(u, [None, -1, set(), -1, False])
                    e[2].add('*phi*' if is_phi else bl)
                    if not is_phi and e[0] == bl:
                        e[3] = max(e[3], i)
                if self.racy_yield and self.racy_fields:
                    gm = re.search(r'= getelementptr inbounds (%(?:"[^"]*"|[-a-zA-Z$._0-9]+)), .*?, i64 0((?:, i32 \d+)+)\s*$', ln)
                    if gm and d and (gm.group(1), tuple(int(x) for x in re.findall(r'i32 (\d+)', gm.group(2)))) in self.racy_fields:
                        racy.add(d)
                    bm = re.search(r'= bitcast \S+ (%(?:"[^"]*"|[-a-zA-Z$._0-9]+)) to', ln)
                    if bm and d and bm.group(1) in racy:
                        racy.add(d)
                    lm = re.search(r'(?:load|store) .*\* (%(?:"[^"]*"|[-a-zA-Z$._0-9]+))(?:,|$)', ln)
                    if (lm and lm.group(1) in racy) or ('getelementptr inbounds (' in ln and re.search(r'\b(load|store)\b', ln)):
                        ys.append(i - 0.5)   # the scheduling point precedes the access
                cm = re.search(r'(?:call|invoke)[^@%]*?(@[-a-zA-Z$._0-9]+|%(?:"[^"]*"|[-a-zA-Z$._0-9]+))\(', ln)
                if cm:
                    cal = cm.group(1)
                    cal = self.aliases.get(cal, cal)
                    if cal.startswith('%') or cal in self.yield_prims or cal in self.co:
                        ys.append(i)
            ylines[bl] = ys
        for n, (db, di, ubs, last, is_phi) in info.items():
            if db is None or is_phi or n in params:
                continue
            if ubs - {db}:
                continue
            if any(di <= y <= last for y in ylines[db]):   # `<= last`: the arguments of a yield primitive are used again by its _post half, after the scheduling point
                continue
            self.local_vals.add(n)

    def parse_func(self, header, body):
        header = re.sub(r' section "[^"]*"', '', header)
        header = re.sub(r' comdat(\s*\([^)]*\))?', '', header)
        header = re.sub(r' personality .*\{$', ' {', header)
        header = re.sub(r'\) [^()]*\{$', ') {', header)
        p = P(tokenize(header))
        p.next()
        rt = None
        while True:
            save = p.i
            try:
                skip_attrs(p)
                rt = parse_type(p)
                if p.peek()[0] == 'glob':
                    break
                p.i = save + 1
            except (SyntaxError, AssertionError, ValueError):
                p.i = save + 1
        nm = p.next()[1]
        p.expect('(')
        ps = []
        va = False
        if not p.eat(')'):
            while True:
                if p.eat('...'):
                    va = True
                else:
                    t = parse_type(p)
                    skip_attrs(p)
                    a = p.next()[1]
                    ps.append((t, a))
                if p.eat(')'):
                    break
                p.expect(',')
        self.defined.add(nm)
        self.funcs.append((nm, rt, ps, va, body))

    # ---------- emission ----------
    def norm(self, t):
        if t[0] != 'ptr':
            if t[0] == 'named':
                return ('named', t[1])
            return t
        e = t[1]
        if e[0] in ('named', 'struct'):
            return ('sptr',)
        if e == ('int', 8):
            return ('i8ptr',)
        if e[0] == 'int':
            return ('iptr', e[1])
        if e[0] == 'func':
            return ('fptr',)
        if e[0] == 'ptr':
            return ('pptr',)
        return ('optr', e[0])

    def nsig(self, r, ps):
        return (self.norm(r), tuple(self.norm(x) for x in ps))

    def emit(self):
        self.icalls = []
        calls = {}
        for (nm, rt, ps, va, body) in self.funcs:
            calls[nm] = set(self.aliases.get(c, c) for c in re.findall(r'(?:call|invoke)[^@\n]*?(@[-a-zA-Z$._0-9]+)\(', '\n'.join(body)))
        self.co = set()
        if self.co_enabled:
            # functions whose address is taken and that may reach a yield are found by a fixpoint that
            # also treats every indirect call as a potential call of every address-taken co function
            self.prescan_addr_taken()
            has_icall = {nm: bool(re.search(r'(?:call|invoke)[^@\n]*? %[-a-zA-Z$._0-9"]+\(', '\n'.join(body))) for (nm, rt, ps, va, body) in self.funcs}
            changed = True
            while changed:
                changed = False
                co_at = self.co & self.pre_addr_taken
                for nm, cs in calls.items():
                    if nm in self.co:
                        continue
                    if cs & self.yield_prims or cs & self.co or (has_icall[nm] and co_at and self.icall_may_reach(nm, co_at)):
                        self.co.add(nm)
                        changed = True
        self.frames = []
        self.fsig = {}
        for (nm, rt, ps, va, _) in self.funcs:
            self.fsig[nm] = self.nsig(rt, [t for t, _ in ps])
        for nm, ft in self.decls.items():
            self.fsig.setdefault(nm, self.nsig(ft[1], ft[2]))
        # global initialisers first: they make vtable entries address-taken
        ginits = []
        gdefs = []
        for n, (t, init, const) in self.globals.items():
            ct = self.ctype(t)
            ginits.append('extern %s %s;' % (ct, self.cid(n)))   # forward declaration: initialisers may refer to globals defined later
            if init is not None:
                gdefs.append('%s %s = %s;' % (ct, self.cid(n), self.cinit(init, t)))
        ginits += gdefs
        self.cfgs = {}
        self.vtable_slots = {}    # slot -> functions found in that slot (after the two header entries) of some single-array vtable
        for n, (t, init, const) in self.globals.items():
            if not n.startswith('@_ZTV') or init is None:
                continue
            try:
                arrs = init[1] if init[0] == 'agg' else []
                if len(arrs) != 1 or arrs[0][0] != 'agg':
                    raise ValueError
                for i, e in enumerate(arrs[0][1][2:]):
                    names = set()
                    self._collect_addr(e, names)
                    self.vtable_slots.setdefault(i, set()).update(names)
            except (ValueError, IndexError, TypeError):
                self.vtable_slots = {}    # a vtable of unknown layout: no restriction at all
                break
        fbodies = [self.emit_func(f) for f in self.funcs]
        fbodies = [re.sub(r'/\*ICALL(\d+)\*/', self.expand_icall, b) for b in fbodies]
        dist = self.step_distances() if (self.step_prune and self.co_enabled) else {}
        PR = 'if (vf_steps < %d) { __CPROVER_assert(0, "INTERNAL: resume point entered before its static minimum step"); __CPROVER_assume(0); }'
        fbodies = [re.sub(r'/\*DIST:(\w+):(\d+)\*/', lambda m: (PR % dist[(m.group(1), int(m.group(2)))]) if (m.group(1), int(m.group(2))) in dist else '', b) for b in fbodies]
        protos = []
        for n, ft in self.decls.items():
            if n.startswith('@llvm.') or n in self.defined:
                continue
            c = self.cid(n)
            if c in LIBC_KNOWN:
                continue
            if ('@' + c) in self.yield_prims and self.co_enabled:
                args = ', '.join(self.ctype(x) for x in ft[2]) or 'void'
                protos.append('void %s_pre(%s); void %s_post(%s);' % (c, args, c, args))
                continue
            protos.append('%s %s(%s);' % (self.ctype(ft[1]), c, (', '.join(self.ctype(x) for x in ft[2]) + (', ...' if ft[3] else '')) if ft[2] else ('void' if not ft[3] else '')))
        for (nm, rt, ps, va, _) in self.funcs:
            if nm in self.co:
                protos.append('int %s_co(void);' % self.cid(nm))
                # address-taken co functions also need an ordinary symbol so that their address can be compared
                protos.append('void %s(void);' % self.cid(nm))
                continue
            protos.append('%s %s(%s);' % (self.ctype(rt), self.cid(nm), ', '.join('%s %s' % (self.ctype(t), 'v_' + self.cid(a)) for t, a in ps) or 'void'))
        tdefs = []
        done = set()

        def emit_t(t):
            k = t[0]
            if k == 'named':
                if t[1] in done:
                    return
                done.add(t[1])
                d = self.types[t[1]]
                if d[0] != 'struct':
                    return
                for f in d[1]:
                    emit_t(f)
                body = ' '.join('%s f%d;' % (self.ctype(f), i) for i, f in enumerate(d[1])) or 'char dummy_;'
                tdefs.append('struct T_%s { %s }%s;' % (self.cid(t[1]), body, ' __attribute__((packed))' if d[2] else ''))
            elif k == 'struct':
                key = repr(t)
                if key in done:
                    return
                done.add(key)
                for f in t[1]:
                    emit_t(f)
                nm = self.ctype(t)
                body = ' '.join('%s f%d;' % (self.ctype(f), i) for i, f in enumerate(t[1])) or 'char dummy_;'
                tdefs.append('%s { %s }%s;' % (nm, body, ' __attribute__((packed))' if t[2] else ''))
            elif k == 'array':
                key = repr(t)
                if key in done:
                    return
                done.add(key)
                emit_t(t[2])
                tdefs.append('%s { %s e[%d]; };' % (self.ctype(t), self.ctype(t[2]), max(t[1], 1)))

        n0 = -1
        while n0 != len(self.anon):
            n0 = len(self.anon)
            for n in list(self.types):
                emit_t(('named', n))
            for key in list(self.anon):
                emit_t(ast.literal_eval(key))
        o = ['#include <stdint.h>', '#include <stddef.h>', '#include <string.h>', '#include <stdlib.h>', '#include "vf_rt.h"']
        o += ['struct T_%s;' % self.cid(n) for n in self.types]
        if self.static_new:
            ns = max(1, len(self.snew))
            protos.append('uint64_t nondet_ulong(void);')
            protos.append('static _Bool snew_live[%d];' % ns)
            protos.append('#ifdef VF_NEW_HOOK\nvoid __vf_new_hook(void *p);\n#define __vf_snew_hook(p) __vf_new_hook(p)\n#else\n#define __vf_snew_hook(p) ((void)0)\n#endif')
            sd = ['void __vf_sdel(void *p) { if (!p) return; int i = -1;']
            for i, n in enumerate(self.snew):
                w = (n + 7) // 8
                protos.append('static uint64_t snew_buf_%d[%d];' % (i, w))
                protos.append('void *__vf_snew_%d(void) { __CPROVER_assert(!snew_live[%d], "BOUND: at most one live object per allocation site"); __CPROVER_assume(!snew_live[%d]); snew_live[%d] = 1; '
                              'for (int j = 0; j < %d; j++) snew_buf_%d[j] = nondet_ulong(); __vf_snew_hook((void*)snew_buf_%d); return (void*)snew_buf_%d; }' % (i, i, i, i, w, i, i, i))
                sd.append('  %sif (p == (void*)snew_buf_%d) i = %d;' % ('else ' if i else '', i, i))
            # a deleted object is only marked dead (its bytes stay): use after delete is visible through the harness' ghost state, not through CBMC's pointer checks
            sd.append('  if (i < 0) { __vf_free(p); return; }')
            sd.append('  __CPROVER_assert(snew_live[i], "UB: delete of an object that is not alive (double delete)"); snew_live[i] = 0; }')
            protos.append('\n'.join(sd))
        o += tdefs + protos + self.frames + ginits
        # dummy bodies for co functions so that `(void*)f` is a valid, distinct address
        for (nm, rt, ps, va, _) in self.funcs:
            if nm in self.co:
                o.append('void %s(void) { __vf_bad_icall(); }' % self.cid(nm))
        o += fbodies
        if self.co_enabled and '@__vf_thread_entry' in self.co:
            gf = next(f for f in self.funcs if f[0] == '@__vf_thread_entry')
            o.append('void __vf_co_start(int t) { fr___vf_thread_entry[t].pc = 0; fr___vf_thread_entry[t].v_%s = (uint32_t)t; }' % self.cid(gf[2][0][1]))
            dyn = next((f for f in self.funcs if f[0] == '@__vf_thread_entry_dyn' and f[0] in self.co), None)
            if dyn:
                # split roots: pre-started harness threads and threads created at run time never execute each other's code
                # (__vf_cur is a constant inside the scheduler's switch, so symbolic execution prunes the other role)
                # constant indices only: a store to fr[t].f with a symbolic t makes CBMC rewrite every field of every element
                o[-1] = ('void __vf_co_start(int t) { for (int i = 0; i < %s; i++) if (i == t) { if (i < VF_PRESTART) { fr___vf_thread_entry[i].pc = 0; fr___vf_thread_entry[i].v_%s = (uint32_t)i; } '
                         'else { fr___vf_thread_entry_dyn[i].pc = 0; fr___vf_thread_entry_dyn[i].v_%s = (uint32_t)i; } } }' % (self.nthr_macro, self.cid(gf[2][0][1]), self.cid(dyn[2][0][1])))
                dmin = getattr(self, 'dyn_base', 0) if self.step_prune else 0
                o.append('int __vf_co_resume(void) { if (__vf_cur < VF_PRESTART) return __vf_thread_entry_co(); if (vf_steps < %d) { __CPROVER_assert(0, "INTERNAL: created thread runs before its static minimum step"); __CPROVER_assume(0); } return __vf_thread_entry_dyn_co(); }' % dmin)
            else:
                o.append('int __vf_co_resume(void) { return __vf_thread_entry_co(); }')
        ctors = getattr(self, 'ctors', [])
        o.append('void __vf_global_ctors(void) { %s }' % ' '.join('%s();' % self.cid(c) for c in ctors if c in self.defined))
        return '\n'.join(o) + '\n'

    def step_distances(self):
        """static lower bound, per resume label, of the scheduler step (vf_steps) at which the label can be resumed:
        number of definite yields (primitives, racy accesses) on a shortest path from the thread root, through call sites;
        a resume before that step is infeasible, so symbolic execution need not explore it (checked by an INTERNAL assertion)"""
        INF = 10 ** 6
        local = {}    # fn -> {event index: d_before}
        for nm, (entry, succ, events) in self.cfgs.items():
            w = {}
            for ev in events:
                if ev[2] == 'def':
                    w[ev[1]] = w.get(ev[1], 0) + 1
            din = {entry: 0}
            work = [entry]
            while work:
                b = work.pop()
                for nx in succ.get(b, []):
                    nd = din[b] + w.get(b, 0)
                    if nd < din.get(nx, INF):
                        din[nx] = nd
                        work.append(nx)
            cnt = {}
            loc = []
            for ev in events:
                j = cnt.get(ev[1], 0)
                loc.append(din.get(ev[1], INF) + j)
                if ev[2] == 'def':
                    cnt[ev[1]] = j + 1
            local[nm] = loc
        base = {nm: INF for nm in self.cfgs}
        if '@__vf_thread_entry' in base:
            base['@__vf_thread_entry'] = 0
        has_dyn = '@__vf_thread_entry_dyn' in base
        changed = True
        while changed:
            changed = False
            for nm, (entry, succ, events) in self.cfgs.items():
                if base[nm] >= INF:
                    continue
                for ev, d in zip(events, local[nm]):
                    if d >= INF:
                        continue
                    tg = []
                    if ev[2] == 'call':
                        tg = [(ev[3], 0)]
                    elif ev[2] == 'icall':
                        tg = [(n, 0) for n in self.cfgs if n in self.addr_taken and self.fsig.get(n) == ev[3]]
                    elif ev[2] == 'create' and has_dyn:
                        tg = [('@__vf_thread_entry_dyn', 1)]
                    for n, extra in tg:
                        if n in base and base[nm] + d + extra < base[n]:
                            base[n] = base[nm] + d + extra
                            changed = True
        self.dyn_base = min(base.get('@__vf_thread_entry_dyn', 0), INF)
        out = {}
        for nm, (entry, succ, events) in self.cfgs.items():
            for ev, d in zip(events, local[nm]):
                if ev[0]:
                    out[(self.cid(nm), ev[0])] = min(base[nm] + d + 1, INF)
        return out

    def prescan_addr_taken(self):
        """functions whose address appears anywhere other than as a direct callee (cheap textual scan)"""
        self.pre_addr_taken = set()
        names = set(nm for (nm, *_r) in self.funcs)
        for n, (t, init, const) in self.globals.items():
            self._scan_const(init, names)
        for (nm, rt, ps, va, body) in self.funcs:
            for ln in body:
                for m in re.finditer(r'@[-a-zA-Z$._0-9]+', ln):
                    g = m.group()
                    if g in names and not re.search(r'(call|invoke)[^@]*' + re.escape(g) + r'\(', ln):
                        self.pre_addr_taken.add(g)
                    elif g in names:
                        # direct callee, but may also appear among the arguments
                        if ln.count(g) > 1:
                            self.pre_addr_taken.add(g)

    def _collect_addr(self, c, out):
        if not c:
            return
        if c[0] == 'addr':
            out.add(self.aliases.get(c[1], c[1]))
        elif c[0] in ('agg', 'cast', 'bitcast') or isinstance(c, tuple):
            for e in c[1:]:
                if isinstance(e, tuple):
                    self._collect_addr(e, out)
                elif isinstance(e, list):
                    for x in e:
                        if isinstance(x, tuple):
                            self._collect_addr(x, out)

    def _scan_const(self, c, names):
        if not c:
            return
        if c[0] == 'addr' and self.aliases.get(c[1], c[1]) in names:
            self.pre_addr_taken.add(self.aliases.get(c[1], c[1]))
        elif c[0] == 'agg':
            for e in c[1]:
                self._scan_const(e, names)
        elif c[0] in ('gep',):
            self._scan_const(c[2], names)
        elif c[0] == 'cast':
            self._scan_const(c[2], names)

    def icall_may_reach(self, nm, co_at):
        # conservative: any indirect call in nm may target a co function of matching arity; refined at expansion
        return True

    def expand_icall(self, m):
        sig, d, callee, av, in_co, resume_k, dst_l, cur_fn, vslot = self.icalls[int(m.group(1))]
        want = self.nsig(sig[0], sig[1])
        cands = sorted(n for n in self.addr_taken if self.fsig.get(n) == want)
        if vslot is not None and self.vtable_slots.get(vslot):
            # virtual call through slot `vslot` of the object's vtable: only functions that some vtable holds in that slot can be called
            # (anything else ends in __vf_bad_icall below, so a wrong restriction is reported, never silent)
            rc = [n for n in cands if n in self.vtable_slots[vslot]]
            if rc:
                cands = rc
        out = ''
        for n in cands:
            c = self.cid(n)
            if n in self.co and n == cur_fn:
                # a resumable function has one frame per thread: direct recursion through a function pointer is outside the encoding
                out += 'if (%s == (void*)%s) { __CPROVER_assert(0, "BOUND: recursion of a resumable function"); __CPROVER_assume(0); } else ' % (callee, c)
                continue
            if n in self.co:
                if not in_co:
                    raise NotImplementedError('indirect call of may-yield function %s from plain function' % n)
                gf = next(f for f in self.funcs if f[0] == n)
                st = 'fr_%s[__vf_cur].pc = 0; ' % c + ' '.join('fr_%s[__vf_cur].v_%s = %s;' % (c, self.cid(pa), a) for (pt, pa), a in zip(gf[2], av))
                st += ' F->ic%d = %d; ' % (resume_k, cands.index(n))
                out += 'if (%s == (void*)%s) { %s goto RI%d_%d; } else ' % (callee, c, st, resume_k, cands.index(n))
            else:
                call = '%s(%s);' % (c, ', '.join(av))
                if d and sig[0][0] != 'void':
                    call = '%s = %s' % (dst_l, call)
                out += 'if (%s == (void*)%s) { %s } else ' % (callee, c, call)
        out += '{ __vf_bad_icall(); }'
        if in_co:
            # resume points for co candidates
            tail = ' goto RE%d; ' % resume_k
            for n in cands:
                if n in self.co and n != cur_fn:
                    c = self.cid(n)
                    i = cands.index(n)
                    tail += 'RI%d_%d: ; if (%s_co()) { F->pc = %d; return 1; } ' % (resume_k, i, c, resume_k)
                    if d and sig[0][0] != 'void':
                        tail += '%s = fr_%s[__vf_cur].ret; ' % (dst_l, c)
                    tail += 'goto RE%d; ' % resume_k
            # on resume: jump back into the right candidate
            res = 'R%d: ; switch (F->ic%d) { %s default: __vf_bad_icall(); } ' % (resume_k, resume_k, ' '.join('case %d: goto RI%d_%d;' % (cands.index(n), resume_k, cands.index(n)) for n in cands if n in self.co and n != cur_fn))
            out = out + tail + res + 'RE%d: ;' % resume_k
        return out

    def blabel(self, b):
        return 'L_' + self.cid(b)

    def operand(self, p, t):
        c = self.parse_const(p, t)
        if c[0] in ('agg', 'bytes'):
            return self.agg_operand(c, t)
        e = self.cexpr(c)
        if c[0] == 'gep' and self.racy_fields and c[1][0] == 'named':
            # constant-expression GEP into a global object: the same racy-field rule as for instruction GEPs
            try:
                path = tuple(int(re.fullmatch(r'(\d+)U(LL)?', self.cexpr(i)).group(1)) for i in c[3][1:])
                if (c[1][1], path) in self.racy_fields:
                    self.racy_vals.add(e)
            except (AttributeError, NotImplementedError):
                pass
        return e

    def emit_func(self, f):
        nm, rt, ps, va, body = f
        self.cur_fn = nm
        self.cur_co = nm in self.co
        self.co_prefix = 'F->' if self.cur_co else ''
        self.resume = 0
        self.cur_rt = rt
        self.vals = {}
        self.tmpn = 0
        self.acc_on = any(self.cid(nm).startswith(pfx) for pfx in self.acc_prefixes) and not (self.cid(nm).startswith('__vf_racy_field') or self.cid(nm) in ('vf_lock_mode', 'vf_on_park', 'vf_final'))
        for t, a in ps:
            self.vals[a] = t
        blocks = []
        cur = None
        first_label = '%' + str(len(ps))
        for ln in body:
            if not ln.strip():
                continue
            m = re.match(r'^([-a-zA-Z$._0-9]+|"[^"]*"):', ln)
            if m:
                cur = ('%' + m.group(1), [])
                blocks.append(cur)
                continue
            if cur is None:
                cur = (first_label, [])
                blocks.append(cur)
            cur[1].append(ln.strip())
        for b in blocks:
            merged = []
            acc = None
            for ln in b[1]:
                if acc is not None:
                    acc += ' ' + ln
                    if ln.startswith(']'):
                        merged.append(acc)
                        acc = None
                elif ln.startswith('switch') and not ln.rstrip().endswith(']'):
                    acc = ln
                else:
                    merged.append(ln)
            b[1][:] = merged
        self.co_mem = []
        self.co_extra = []
        self.racy_vals = set()
        self.events = []
        self.cur_bl = None
        self.compute_locals(nm, ps, blocks)
        # virtual-call pattern: %vt = load F**, F*** %obj ; %s = getelementptr F*, F** %vt, i64 K ; %f = load F*, F** %s  =>  %f is slot K
        self.vslot = {}
        vts, slots = set(), {}
        for b in blocks:
            for ln in b[1]:
                m = re.match(r'(%[-\w.$"]+) = load .*\)\*\*, .*\)\*\*\* %', ln)
                if m:
                    vts.add(m.group(1))
                    continue
                m = re.match(r'(%[-\w.$"]+) = getelementptr inbounds .*\)\*, .*\)\*\* (%[-\w.$"]+), i64 (\d+)$', ln)
                if m and m.group(2) in vts:
                    slots[m.group(1)] = int(m.group(3))
                    continue
                m = re.match(r'(%[-\w.$"]+) = load .*\)\*, .*\)\*\* (%[-\w.$"]+)(,|$)', ln)
                if m and (m.group(2) in slots or m.group(2) in vts):
                    self.vslot[self.lname(m.group(1))] = slots.get(m.group(2), 0)
        insts = {}
        for b in blocks:
            insts[b[0]] = [self.parse_inst(l) for l in b[1]]
        phis = {bl: [i for i in il if i[0] == 'phi'] for bl, il in insts.items()}
        decl = []
        code = []
        # emit blocks in reverse post-order: every non-back edge then goes forward in the text, so loops are entered by
        # forward jumps and left/continued by the only backward gotos. CBMC resets a loop's unwinding counter when the
        # head is reached from outside; with LLVM's own block order (a latch placed before the loop body) counters
        # accumulate over re-entries and unwinding assertions fail spuriously.
        succ = {}
        for bl, _ in blocks:
            t = insts[bl][-1] if insts[bl] else ('unreachable',)
            if t[0] == 'br':
                succ[bl] = [t[1]]
            elif t[0] == 'condbr':
                succ[bl] = [t[2], t[3]]
            elif t[0] == 'switch':
                succ[bl] = [t[3]] + [lb for _, lb in t[4]]
            else:
                succ[bl] = []
        seen = set()
        post = []
        stack = [(blocks[0][0], iter(succ[blocks[0][0]]))] if blocks else []
        if blocks:
            seen.add(blocks[0][0])
        while stack:
            node, it = stack[-1]
            adv = False
            for nx in it:
                if nx not in seen:
                    seen.add(nx)
                    stack.append((nx, iter(succ.get(nx, []))))
                    adv = True
                    break
            if not adv:
                post.append(node)
                stack.pop()
        rpo = list(reversed(post))
        bmap = dict(blocks)
        blocks = [(b, bmap[b]) for b in rpo] + [(b, l) for b, l in blocks if b not in seen]
        self.border = {bl: i for i, (bl, _) in enumerate(blocks)}
        self.tramps = {}
        for bl, _ in blocks:
            code.append('/*HEAD:%s*/' % bl)
            code.append('%s: ;' % self.blabel(bl))
            self.cur_bl = bl
            for ins in insts[bl]:
                if ins[0] == 'phi':
                    continue
                code += self.emit_inst(ins, bl, phis)
        # trampolines (phi copies of backward edges) are placed right before the loop head, so that the backward goto
        # itself can be a bare conditional goto: CBMC resets a loop's unwinding counter only when that goto is not taken
        out = []
        for ln in code:
            m = re.fullmatch(r'/\*HEAD:(.*)\*/', ln)
            if m:
                for (tn, copies) in self.tramps.get(m.group(1), []):
                    out.append('%s: ; %s goto %s;' % (tn, ' '.join(copies), self.blabel(m.group(1))))
                continue
            out.append(ln)
        code = out
        ldecl = []
        for n, t in self.vals.items():
            if any(n == a for _, a in ps):
                continue
            if t[0] == 'void':
                continue
            (ldecl if (self.cur_co and n in self.local_vals) else decl).append('  %s %s;' % (self.ctype(t), self.lname(n)))
        for bl in phis:
            for ph in phis[bl]:
                (ldecl if self.cur_co else decl).append('  %s %s;' % (self.ctype(ph[2]), self.phiname(ph[1])))
        if self.cur_co:
            fn = self.cid(nm)
            fields = ['  int pc;']
            if rt[0] != 'void':
                fields.append('  %s ret;' % self.ctype(rt))
            for t, a in ps:
                fields.append('  %s %s;' % (self.ctype(t), 'v_' + self.cid(a)))
            fields += [d.replace('F->', '') for d in decl]
            fields += ['  ' + m for m in self.co_mem]
            fields += ['  ' + m for m in self.co_extra]
            self.frames.append('struct FR_%s {\n%s\n};\nstruct FR_%s fr_%s[%s];' % (fn, '\n'.join(fields), fn, fn, self.nthr_macro))
            self.cfgs[nm] = (blocks[0][0] if blocks else None, succ, list(self.events))
            sw = '  switch (F->pc) { case 0: break; ' + ' '.join('case %d: /*DIST:%s:%d*/ goto R%d;' % (k, fn, k, k) for k in range(1, self.resume + 1)) + ' default: __vf_bad_icall(); }'
            return 'int %s_co(void) {\n  struct FR_%s *F = &fr_%s[__vf_cur];\n%s\n%s\n%s\n}\n' % (fn, fn, fn, '\n'.join(ldecl), sw, '\n'.join('  ' + c for c in code))
        sig = '%s %s(%s)' % (self.ctype(rt), self.cid(nm), ', '.join('%s %s' % (self.ctype(t), self.lname(a)) for t, a in ps) or 'void')
        return sig + ' {\n' + '\n'.join(decl) + '\n' + '\n'.join('  ' + c for c in code) + '\n}\n'

    def parse_inst(self, ln):
        if '@llvm.experimental.noalias.scope.decl' in ln or '@llvm.dbg.' in ln:
            return ('nop',)
        ln = re.sub(r', ![a-zA-Z_.]+ ![0-9]+', '', ln)
        ln = re.sub(r' \[ "[^\]]*\]$', '', ln)
        p = P(tokenize(ln))
        dst = None
        if p.peek()[0] == 'local' and p.peek(1)[1] == '=':
            dst = p.next()[1]
            p.next()
        op = p.next()[1]
        while op in ('tail', 'musttail', 'notail'):
            op = p.next()[1]
        FL = ('nsw', 'nuw', 'exact', 'inbounds', 'fast', 'nnan', 'ninf', 'nsz', 'arcp', 'contract', 'afn', 'reassoc', 'volatile', 'atomic', 'weak')

        def flags():
            fl = []
            while p.peek()[1] in FL:
                fl.append(p.next()[1])
            return fl
        if op in ('add', 'sub', 'mul', 'udiv', 'sdiv', 'urem', 'srem', 'shl', 'lshr', 'ashr', 'and', 'or', 'xor', 'fadd', 'fsub', 'fmul', 'fdiv', 'frem'):
            fl = flags()
            t = parse_type(p)
            a = self.operand(p, t)
            p.expect(',')
            b = self.operand(p, t)
            self.vals[dst] = t
            return ('bin', dst, op, t, a, b, fl)
        if op == 'fneg':
            flags()
            t = parse_type(p)
            a = self.operand(p, t)
            self.vals[dst] = t
            return ('fneg', dst, t, a)
        if op in ('icmp', 'fcmp'):
            flags()
            pred = p.next()[1]
            t = parse_type(p)
            a = self.operand(p, t)
            p.expect(',')
            b = self.operand(p, t)
            self.vals[dst] = ('int', 1)
            return ('cmp', dst, op, pred, t, a, b)
        if op == 'phi':
            flags()
            t = parse_type(p)
            inc = []
            while True:
                p.expect('[')
                v = self.operand(p, t)
                p.expect(',')
                b = p.next()[1]
                p.expect(']')
                inc.append((v, b))
                if not p.eat(','):
                    break
            self.vals[dst] = t
            return ('phi', dst, t, inc)
        if op == 'select':
            flags()
            ct = parse_type(p)
            c = self.operand(p, ct)
            p.expect(',')
            t = parse_type(p)
            a = self.operand(p, t)
            p.expect(',')
            parse_type(p)
            b = self.operand(p, t)
            self.vals[dst] = t
            return ('select', dst, t, c, a, b)
        if op in ('zext', 'sext', 'trunc', 'bitcast', 'ptrtoint', 'inttoptr', 'sitofp', 'uitofp', 'fptosi', 'fptoui', 'fpext', 'fptrunc', 'freeze', 'addrspacecast'):
            if op == 'freeze':
                t = parse_type(p)
                a = self.operand(p, t)
                self.vals[dst] = t
                return ('cast', dst, op, t, a, t)
            ft = parse_type(p)
            a = self.operand(p, ft)
            assert p.next()[1] == 'to'
            tt = parse_type(p)
            self.vals[dst] = tt
            if op == 'bitcast' and a in self.racy_vals:
                self.racy_vals.add(self.lname(dst))
            return ('cast', dst, op, ft, a, tt)
        if op == 'load':
            fl = flags()
            t = parse_type(p)
            p.expect(',')
            pt = parse_type(p)
            a = self.operand(p, pt)
            self.vals[dst] = t
            return ('load', dst, t, a, 'atomic' in fl)
        if op == 'store':
            fl = flags()
            t = parse_type(p)
            v = self.operand(p, t)
            p.expect(',')
            pt = parse_type(p)
            a = self.operand(p, pt)
            return ('store', t, v, a, 'atomic' in fl)
        if op == 'getelementptr':
            flags()
            st = parse_type(p)
            p.expect(',')
            bt = parse_type(p)
            base = self.operand(p, bt)
            idx = []
            while p.eat(','):
                if p.peek()[0] == 'meta':
                    break
                it = parse_type(p)
                idx.append(self.operand(p, it))
            self.vals[dst] = ('ptr', ('int', 8))
            if self.racy_fields and st[0] == 'named':
                path = tuple(int(re.fullmatch(r'(\d+)U(LL)?', i).group(1)) for i in idx[1:] if re.fullmatch(r'(\d+)U(LL)?', i))
                if len(path) == len(idx) - 1 and (st[1], path) in self.racy_fields:
                    self.racy_vals.add(self.lname(dst))
            return ('gep', dst, st, base, idx)
        if op == 'alloca':
            t = parse_type(p)
            n = '1'
            if p.eat(','):
                if p.peek()[1] != 'align':
                    nt = parse_type(p)
                    n = self.operand(p, nt)
            self.vals[dst] = ('ptr', t)
            return ('alloca', dst, t, n)
        if op == 'br':
            if p.peek()[1] == 'label':
                p.next()
                return ('br', p.next()[1])
            t = parse_type(p)
            c = self.operand(p, t)
            p.expect(',')
            p.next()
            a = p.next()[1]
            p.expect(',')
            p.next()
            b = p.next()[1]
            return ('condbr', c, a, b)
        if op == 'switch':
            t = parse_type(p)
            v = self.operand(p, t)
            p.expect(',')
            p.next()
            d = p.next()[1]
            p.expect('[')
            cases = []
            while not p.eat(']'):
                ct = parse_type(p)
                cv = self.operand(p, ct)
                p.expect(',')
                p.next()
                cases.append((cv, p.next()[1]))
            return ('switch', t, v, d, cases)
        if op == 'ret':
            t = parse_type(p)
            if t[0] == 'void':
                return ('ret', None)
            return ('ret', self.operand(p, t))
        if op == 'unreachable':
            return ('unreachable',)
        if op in ('call', 'invoke'):
            flags()
            while p.peek()[0] == 'word' and p.peek()[1] in ('fastcc', 'ccc', 'coldcc'):
                p.next()
            skip_attrs(p)
            rt = parse_type(p)
            k, v = p.next()
            direct = (k == 'glob')
            if k == 'word' and v in ('bitcast',):
                # call through a constant bitcast of a function: treat as direct call of the function
                p.expect('(')
                parse_type(p)
                k2, v2 = p.next()
                assert p.next()[1] == 'to'
                parse_type(p)
                p.expect(')')
                callee = v2
                direct = True
            else:
                callee = v if direct else self.lname(v)
            p.expect('(')
            args = []
            if not p.eat(')'):
                while True:
                    at = parse_type(p)
                    bv = skip_attrs(p)
                    args.append((at, self.operand(p, at), bv))
                    if p.eat(')'):
                        break
                    p.expect(',')
            ft = None
            if rt[0] == 'func':
                ft = rt
                rt = rt[1]
            if dst:
                self.vals[dst] = rt
            return ('call', dst, rt, callee, direct, args, ft)
        if op == 'extractvalue':
            t = parse_type(p)
            a = self.operand(p, t)
            idx = []
            while p.eat(','):
                idx.append(int(p.next()[1]))
            rt = t
            for i in idx:
                r = self.resolve(rt)
                rt = r[1][i] if r[0] == 'struct' else r[2]
            self.vals[dst] = rt
            return ('extractvalue', dst, t, a, idx)
        if op == 'insertvalue':
            t = parse_type(p)
            a = self.operand(p, t)
            p.expect(',')
            et = parse_type(p)
            e = self.operand(p, et)
            idx = []
            while p.eat(','):
                idx.append(int(p.next()[1]))
            self.vals[dst] = t
            return ('insertvalue', dst, t, a, e, idx)
        if op == 'atomicrmw':
            flags()
            rop = p.next()[1]
            pt = parse_type(p)
            a = self.operand(p, pt)
            p.expect(',')
            t = parse_type(p)
            v = self.operand(p, t)
            self.vals[dst] = t
            return ('atomicrmw', dst, rop, t, a, v)
        if op == 'cmpxchg':
            flags()
            pt = parse_type(p)
            a = self.operand(p, pt)
            p.expect(',')
            t = parse_type(p)
            e = self.operand(p, t)
            p.expect(',')
            parse_type(p)
            n = self.operand(p, t)
            rt = ('struct', (t, ('int', 1)), False)
            self.vals[dst] = rt
            return ('cmpxchg', dst, t, a, e, n, rt)
        if op == 'fence':
            return ('fence',)
        raise NotImplementedError('inst ' + op + ' :: ' + ln)

    def phi_copies(self, frm, to, phis):
        out = []
        ps = phis.get(to, [])
        for ph in ps:
            for v, b in ph[3]:
                if b == frm:
                    out.append('%s = %s;' % (self.phiname(ph[1]), v))
        for ph in ps:
            if any(b == frm for _, b in ph[3]):
                out.append('%s = %s;' % (self.lname(ph[1]), self.phiname(ph[1])))
        return out

    def goto(self, frm, to, phis):
        return ' '.join(self.phi_copies(frm, to, phis) + ['goto %s;' % self.blabel(to)])

    def backward(self, frm, to):
        return self.border[to] <= self.border[frm]

    def tramp(self, frm, to, phis):
        """label of a trampoline (phi copies of edge frm->to, placed before the head `to`)"""
        copies = self.phi_copies(frm, to, phis)
        if not copies:
            return self.blabel(to)
        lst = self.tramps.setdefault(to, [])
        tn = 'TR_%s_%d' % (self.cid(to), len(lst))
        lst.append((tn, copies))
        return tn

    def sct(self, w):
        if w in (8, 16, 32, 64):
            return 'int%d_t' % w
        if w == 128:
            return '__int128'
        return None

    def sval(self, a, w):
        """operand a of width w as a signed C value (sign extension for odd widths)"""
        s = self.sct(w)
        if s:
            return '(%s)%s' % (s, a)
        for cw in (8, 16, 32, 64):
            if w < cw:
                return '((int%d_t)((uint%d_t)%s << %d) >> %d)' % (cw, cw, a, cw - w, cw - w)
        raise NotImplementedError('signed i%d' % w)

    def mask(self, e, t):
        if t[0] != 'int':
            return e
        w = t[1]
        if w in (8, 16, 32, 64, 128):
            return e
        if w == 1:
            return '(%s) & 1' % e
        return '(%s) & %s' % (e, self.intlit((1 << w) - 1, t))

    def emit_inst(self, ins, bl, phis):
        k = ins[0]
        L = self.lname
        if k == 'bin':
            _, d, op, t, a, b, fl = ins
            ct = self.ctype(t)
            w = t[1] if t[0] == 'int' else 0
            m = {'add': '+', 'sub': '-', 'mul': '*', 'udiv': '/', 'urem': '%', 'and': '&', 'or': '|', 'xor': '^', 'shl': '<<', 'lshr': '>>', 'fadd': '+', 'fsub': '-', 'fmul': '*', 'fdiv': '/'}
            pre = []
            if op in ('sdiv', 'srem'):
                pre.append('__vf_check_ub((%s)%s != 0, "division by zero");' % (ct, b))
                e = '(%s)(%s %s %s)' % (ct, self.sval(a, w), '/' if op == 'sdiv' else '%', self.sval(b, w))
                if self.ubchk and self.sct(w):
                    pre.append('__vf_check_ub(!(%s == %s && %s == -1), "signed division overflow");' % (self.sval(a, w), '(%s)(%s)' % (self.sct(w), self.intlit(1 << (w - 1), t)), self.sval(b, w)))
            elif op in ('udiv', 'urem'):
                pre.append('__vf_check_ub((%s)%s != 0, "division by zero");' % (ct, b))
                e = '(%s)((%s)%s %s (%s)%s)' % (ct, ct, a, m[op], ct, b)
            elif op == 'ashr':
                if self.ubchk:
                    pre.append('__vf_check_ub((%s)%s < %d, "shift amount too large");' % (ct, b, w))
                e = '(%s)(%s >> %s)' % (ct, self.sval(a, w), b)
            elif op in ('shl', 'lshr'):
                if self.ubchk:
                    pre.append('__vf_check_ub((%s)%s < %d, "shift amount too large");' % (ct, b, w))
                e = '(%s)((%s)%s %s (%s)%s)' % (ct, ct, a, m[op], ct, b)
            elif op == 'frem':
                e = '__builtin_fmod(%s, %s)' % (a, b)
            elif t[0] == 'int' and w == 1:
                e = '(%s %s %s) & 1' % (a, m[op], b)
            elif t[0] == 'int':
                e = '(%s)((%s)%s %s (%s)%s)' % (ct, ct, a, m[op], ct, b)
            else:
                e = '(%s %s %s)' % (a, m[op], b)
            if op in ('add', 'sub', 'mul') and 'nsw' in fl and self.sct(w) and self.ubchk:
                s = self.sct(w)
                pre.append('{ %s ov_; __vf_check_ub(!__builtin_%s_overflow((%s)%s, (%s)%s, &ov_), "signed overflow (nsw)"); }' % (s, op, s, a, s, b))
            if op in ('add', 'sub', 'mul') and 'nuw' in fl and 'nsw' not in fl and w in (8, 16, 32, 64) and self.ubchk:
                pre.append('{ %s ov_; __vf_check_ub(!__builtin_%s_overflow((%s)%s, (%s)%s, &ov_), "unsigned overflow (nuw)"); }' % (ct, op, ct, a, ct, b))
            return pre + ['%s = %s;' % (L(d), self.mask(e, t))]
        if k == 'fneg':
            _, d, t, a = ins
            return ['%s = -%s;' % (L(d), a)]
        if k == 'cmp':
            _, d, op, pred, t, a, b = ins
            if op == 'icmp':
                rt = self.resolve(t)
                if rt[0] == 'ptr':
                    cm = {'eq': '==', 'ne': '!=', 'ult': '<', 'ule': '<=', 'ugt': '>', 'uge': '>='}[pred]
                    if pred in ('eq', 'ne'):
                        return ['%s = ((void*)%s %s (void*)%s);' % (L(d), a, cm, b)]
                    return ['%s = ((uintptr_t)%s %s (uintptr_t)%s);' % (L(d), a, cm, b)]
                w = rt[1]
                ct = self.ctype(t)
                if pred[0] == 's':
                    cm = {'slt': '<', 'sle': '<=', 'sgt': '>', 'sge': '>='}[pred]
                    return ['%s = (%s %s %s);' % (L(d), self.sval(a, w), cm, self.sval(b, w))]
                cm = {'eq': '==', 'ne': '!=', 'ult': '<', 'ule': '<=', 'ugt': '>', 'uge': '>='}[pred]
                return ['%s = ((%s)%s %s (%s)%s);' % (L(d), ct, self.mask(a, t) if w not in (8, 16, 32, 64) else a, cm, ct, self.mask(b, t) if w not in (8, 16, 32, 64) else b)]
            if pred in ('true', 'false'):
                return ['%s = %d;' % (L(d), pred == 'true')]
            if pred == 'ord':
                return ['%s = !(__builtin_isnan(%s) || __builtin_isnan(%s));' % (L(d), a, b)]
            if pred == 'uno':
                return ['%s = (__builtin_isnan(%s) || __builtin_isnan(%s));' % (L(d), a, b)]
            cm = {'oeq': '==', 'one': '!=', 'olt': '<', 'ole': '<=', 'ogt': '>', 'oge': '>=', 'ueq': '==', 'une': '!=', 'ult': '<', 'ule': '<=', 'ugt': '>', 'uge': '>='}[pred]
            if pred[0] == 'u':
                return ['%s = (__builtin_isnan(%s) || __builtin_isnan(%s) || %s %s %s);' % (L(d), a, b, a, cm, b)]
            if pred == 'one':
                return ['%s = (!__builtin_isnan(%s) && !__builtin_isnan(%s) && %s != %s);' % (L(d), a, b, a, b)]
            return ['%s = (%s %s %s);' % (L(d), a, cm, b)]
        if k == 'select':
            _, d, t, c, a, b = ins
            return ['%s = (%s & 1) ? %s : %s;' % (L(d), c, a, b)]
        if k == 'cast':
            _, d, op, ft, a, tt = ins
            ct = self.ctype(tt)
            if op == 'zext':
                return ['%s = (%s)(%s)%s;' % (L(d), ct, self.ctype(ft), self.mask(a, ft) if ft[1] not in (8, 16, 32, 64) else a)]
            if op == 'sext':
                if ft == ('int', 1):
                    return ['%s = (%s)((%s & 1) ? -1 : 0);' % (L(d), ct, a)]
                return ['%s = %s;' % (L(d), self.mask('(%s)(%s)%s' % (ct, self.sct(tt[1]) or 'int64_t', self.sval(a, ft[1])), tt))]
            if op == 'trunc':
                return ['%s = %s;' % (L(d), self.mask('(%s)%s' % (ct, a), tt))]
            if op in ('freeze', 'addrspacecast'):
                return ['%s = %s;' % (L(d), a)]
            if op == 'bitcast':
                if self.resolve(ft)[0] == 'ptr' or ft == tt:
                    return ['%s = %s;' % (L(d), a)]
                return ['{ %s t_ = %s; memcpy(&%s, &t_, sizeof(t_)); }' % (self.ctype(ft), a, L(d))]
            if op == 'ptrtoint':
                return ['%s = (%s)(uintptr_t)%s;' % (L(d), ct, a)]
            if op == 'inttoptr':
                return ['%s = (void*)(uintptr_t)%s;' % (L(d), a)]
            if op == 'sitofp':
                return ['%s = (%s)%s;' % (L(d), ct, self.sval(a, ft[1]))]
            if op == 'fptosi':
                return ['%s = %s;' % (L(d), self.mask('(%s)(%s)%s' % (ct, self.sct(tt[1]) or 'int64_t', a), tt))]
            return ['%s = (%s)%s;' % (L(d), ct, a)]
        if k == 'load':
            _, d, t, a, atomic = ins
            pre = self.racy_point(a)
            if self.acc_on:
                pre.append('__vf_acc(%s, sizeof(%s), %d);' % (a, self.ctype(t), 2 if atomic else 0))
            return pre + ['%s = *(%s*)%s;' % (L(d), self.ctype(t), a)]
        if k == 'store':
            _, t, v, a, atomic = ins
            pre = self.racy_point(a)
            if self.acc_on:
                pre.append('__vf_acc(%s, sizeof(%s), %d);' % (a, self.ctype(t), 3 if atomic else 1))
            return pre + ['*(%s*)%s = %s;' % (self.ctype(t), a, v)]
        if k == 'gep':
            _, d, st, base, idx = ins
            return ['%s = %s;' % (L(d), self.gep_expr(st, base, idx))]
        if k == 'alloca':
            _, d, t, n = ins
            if self.cur_co:
                # automatic objects of resumable functions live in their own per-thread global arrays, NOT inside the frame struct:
                # a store through a pointer into the frame would make CBMC rewrite every frame field with a byte_update of the whole object
                gname = 'am_%s_%s' % (self.cid(self.cur_fn), 'v_' + self.cid(d))
                init = ' = {{0}}' if t[0] == 'struct' else ''
                self.frames.append('%s %s[%s]%s;' % (self.ctype(t), gname, self.nthr_macro, '' if not init else ''))
                return ['%s = &%s[__vf_cur];' % (L(d), gname)]
            if n in ('1', '1U', '1ULL'):
                # clang coerces small classes to literal types such as { i64, i64 } and then stores narrower fields into them: on a
                # nondeterministic base CBMC keeps nested byte_update terms that its simplifier does not fold, which makes concrete
                # data look symbolic. Literal-struct / integer allocas therefore start zeroed (named class types stay nondeterministic).
                init = ' = {0}' if t[0] == 'struct' else ''
                return ['%s %s_mem%s; %s = &%s_mem;' % (self.ctype(t), L(d), init, L(d), L(d))]
            return ['%s = __builtin_alloca(sizeof(%s) * %s);' % (L(d), self.ctype(t), n)]
        if k == 'br':
            return [self.goto(bl, ins[1], phis)]
        if k == 'condbr':
            _, c, a, b = ins
            return ['if (%s & 1) { %s } else { %s }' % (c, self.goto(bl, a, phis), self.goto(bl, b, phis))]
        if k == 'switch':
            _, t, v, dflt, cases = ins
            s = 'switch ((%s)%s) { ' % (self.ctype(t), v)
            for cv, lb in cases:
                s += 'case %s: { %s } ' % (cv, self.goto(bl, lb, phis))
            s += 'default: { %s } }' % self.goto(bl, dflt, phis)
            return [s]
        if k == 'ret':
            if self.cur_co:
                return (['F->ret = %s;' % ins[1]] if ins[1] is not None else []) + ['F->pc = 0; return 0;']
            return ['return%s;' % (' ' + ins[1] if ins[1] is not None else '')]
        if k == 'unreachable':
            return ['__vf_unreachable();']
        if k == 'extractvalue':
            _, d, t, a, idx = ins
            e = a
            rt = t
            for i in idx:
                r = self.resolve(rt)
                if r[0] == 'struct':
                    e += '.f%d' % i
                    rt = r[1][i]
                else:
                    e += '.e[%d]' % i
                    rt = r[2]
            return ['%s = %s;' % (L(d), e)]
        if k == 'insertvalue':
            _, d, t, a, e, idx = ins
            path = ''
            rt = t
            for i in idx:
                r = self.resolve(rt)
                if r[0] == 'struct':
                    path += '.f%d' % i
                    rt = r[1][i]
                else:
                    path += '.e[%d]' % i
                    rt = r[2]
            return ['%s = %s; %s%s = %s;' % (L(d), a, L(d), path, e)]
        if k == 'atomicrmw':
            _, d, rop, t, a, v = ins
            ct = self.ctype(t)
            m = {'add': '+', 'sub': '-', 'and': '&', 'or': '|', 'xor': '^'}
            pre = ['__vf_acc(%s, sizeof(%s), 3);' % (a, ct)] if self.acc_on else []
            if rop == 'xchg':
                return pre + ['%s = *(%s*)%s; *(%s*)%s = %s;' % (L(d), ct, a, ct, a, v)]
            return pre + ['%s = *(%s*)%s; *(%s*)%s = (%s)(%s %s %s);' % (L(d), ct, a, ct, a, ct, L(d), m[rop], v)]
        if k == 'cmpxchg':
            _, d, t, a, e, n, rt = ins
            ct = self.ctype(t)
            pre = ['__vf_acc(%s, sizeof(%s), 3);' % (a, ct)] if self.acc_on else []
            return pre + ['%s.f0 = *(%s*)%s; %s.f1 = (%s.f0 == %s); if (%s.f1) *(%s*)%s = %s;' % (L(d), ct, a, L(d), L(d), e, L(d), ct, a, n)]
        if k in ('fence', 'nop'):
            return [';']
        if k == 'call':
            _, d, rt, callee, direct, args, ft = ins
            pre = []
            av = []
            for (at, a, bv) in args:
                if bv is not None:
                    self.tmpn += 1
                    tn = 'bv%d' % self.tmpn
                    if self.cur_co:
                        gname = 'bv_%s_%s' % (self.cid(self.cur_fn), tn)
                        self.frames.append('%s %s[%s];' % (self.ctype(bv), gname, self.nthr_macro))
                        pre.append('%s[__vf_cur] = *(%s*)%s;' % (gname, self.ctype(bv), a))
                        av.append('((void*)&%s[__vf_cur])' % gname)
                    else:
                        pre.append('%s %s = *(%s*)%s;' % (self.ctype(bv), tn, self.ctype(bv), a))
                        av.append('((void*)&%s)' % tn)
                else:
                    av.append(a)
            if direct and callee.startswith('@llvm.'):
                return pre + self.intrinsic(d, rt, callee, [(x[0], y) for x, y in zip(args, av)])
            if direct:
                callee = self.aliases.get(callee, callee)
            if direct and callee in self.yield_prims and self.co_enabled:
                if not self.cur_co:
                    raise NotImplementedError('yield primitive in non-co function')
                if callee == '@__vf_cv_wait' and self.racy_yield:
                    # racy configuration: wait() releases the mutex and registers the waiter BEFORE its scheduling point; with fields that are
                    # accessed without a lock the window between evaluating the wait predicate and blocking matters, so it gets its own point
                    self.resume += 1
                    self.events.append((self.resume, self.cur_bl, 'def', None))
                    pre = pre + ['__vf_racy_pre((void*)0); F->pc = %d; return 1; R%d: ; __vf_racy_post((void*)0);' % (self.resume, self.resume)]
                self.resume += 1
                k_ = self.resume
                self.events.append((k_, self.cur_bl, 'def', None))
                pn = self.cid(callee)
                return pre + ['%s_pre(%s); F->pc = %d; return 1; R%d: ; %s_post(%s);' % (pn, ', '.join(av), k_, k_, pn, ', '.join(av))]
            if direct and callee in self.co:
                if not self.cur_co:
                    raise NotImplementedError('call of may-yield function %s from plain function %s' % (callee, self.cur_fn))
                g = self.cid(callee)
                gf = next(f for f in self.funcs if f[0] == callee)
                self.resume += 1
                k_ = self.resume
                self.events.append((k_, self.cur_bl, 'call', callee))
                st = pre + ['fr_%s[__vf_cur].pc = 0;' % g] + ['fr_%s[__vf_cur].v_%s = %s;' % (g, self.cid(pa), a) for (pt, pa), a in zip(gf[2], av)]
                st.append('R%d: ; if (%s_co()) { F->pc = %d; return 1; }' % (k_, g, k_))
                if d and rt[0] != 'void':
                    st.append('%s = fr_%s[__vf_cur].ret;' % (L(d), g))
                return st
            if direct and callee in ('@__vf_check', '@__vf_reach', '@__vf_assume', '@__vf_bound'):
                def msg(a):
                    for g in re.findall(r'&([A-Za-z0-9_]+)\)', a):
                        gi = self.globals_by_cid().get(g)
                        if gi and gi[1] and gi[1][0] == 'bytes':
                            return bytes(gi[1][1]).split(b'\0')[0].decode('latin1').replace('\\', '/').replace('"', "'")
                    return '?'
                if callee == '@__vf_check':
                    return pre + ['__CPROVER_assert(%s, "property: %s");' % (av[0], msg(av[1]))]
                if callee == '@__vf_bound':
                    return pre + ['__CPROVER_assert(%s, "BOUND: %s"); __CPROVER_assume(%s);' % (av[0], msg(av[1]), av[0])]
                if callee == '@__vf_reach':
                    return pre + ['__CPROVER_assert(0, "REACH: %s");' % msg(av[0])]
                return pre + ['__CPROVER_assume(%s);' % av[0]]
            if direct and self.static_new and callee in ('@_Znwm', '@_Znam') and re.fullmatch(r'\d+ULL', av[0]):
                # one static buffer per allocation site (at most one live object per site, BOUND-asserted): no dynamic objects,
                # pointer value sets do not grow with the number of scheduler steps
                self.snew.append(int(av[0][:-3]))
                return pre + ['%s = __vf_snew_%d();' % (L(d), len(self.snew) - 1)]
            if direct and self.static_new and callee in ('@_ZdlPv', '@_ZdaPv', '@_ZdlPvm'):
                return pre + ['__vf_sdel(%s);' % av[0]]
            if direct:
                if callee == '@__vf_thread_create' and self.cur_co:
                    self.events.append((0, self.cur_bl, 'create', None))
                if callee not in self.defined and callee not in self.decls:
                    raise NotImplementedError('call of unknown ' + callee)
                e = '%s(%s)' % (self.cid(callee), ', '.join(av))
            else:
                sig = (rt, tuple(x[0] for x in args))
                rk = 0
                if self.cur_co:
                    self.resume += 1
                    rk = self.resume
                    self.events.append((rk, self.cur_bl, 'icall', self.nsig(sig[0], sig[1])))
                    self.co_extra.append('int ic%d;' % rk)
                self.icalls.append((sig, d, callee, av, self.cur_co, rk, L(d) if d else None, self.cur_fn, self.vslot.get(callee)))
                return pre + ['/*ICALL%d*/' % (len(self.icalls) - 1)]
            if d and rt[0] != 'void':
                return pre + ['%s = %s;' % (L(d), e)]
            return pre + [e + ';']
        raise NotImplementedError(ins)

    def racy_point(self, a):
        """scheduling point before an access to a field declared racy (only in resumable code)"""
        if not (self.racy_yield and self.cur_co and a in self.racy_vals):
            return []
        self.resume += 1
        k_ = self.resume
        self.events.append((k_, self.cur_bl, 'def', None))
        return ['__vf_racy_pre(%s); F->pc = %d; return 1; R%d: ; __vf_racy_post(%s);' % (a, k_, k_, a)]

    def intrinsic(self, d, rt, callee, args):
        n = callee[6:]
        av = [a for _, a in args]
        L = self.lname
        if n.startswith('lifetime.end') and self.lifetime_havoc:
            return ['__vf_lifetime_end(%s, %s);' % (av[1], av[0])]
        if n.startswith(('lifetime.', 'dbg.', 'experimental.noalias', 'invariant.', 'assume', 'prefetch', 'donothing')):
            return []
        pre = []
        if n.startswith(('memcpy', 'memmove')):
            if self.acc_on:
                pre = ['__vf_acc(%s, %s, 1); __vf_acc(%s, %s, 0);' % (av[0], av[2], av[1], av[2])]
            return pre + ['__vf_%s(%s, %s, %s);' % (n[:7] if n.startswith('memmove') else 'memcpy', av[0], av[1], av[2])]
        if n.startswith('memset'):
            if self.acc_on:
                pre = ['__vf_acc(%s, %s, 1);' % (av[0], av[2])]
            return pre + ['__vf_memset(%s, (int)%s, %s);' % (av[0], av[1], av[2])]
        if n.startswith(('umin', 'umax', 'smin', 'smax')):
            s = n[0] == 's'
            cm = '<' if n[1:4] == 'min' else '>'
            x = self.sval(av[0], rt[1]) if s else '(%s)%s' % (self.ctype(rt), av[0])
            y = self.sval(av[1], rt[1]) if s else '(%s)%s' % (self.ctype(rt), av[1])
            return ['%s = (%s %s %s) ? %s : %s;' % (L(d), x, cm, y, av[0], av[1])]
        if n.startswith('abs.'):
            return ['%s = (%s)((%s) < 0 ? -(%s) : (%s));' % (L(d), self.ctype(rt), self.sval(av[0], rt[1]), self.sval(av[0], rt[1]), self.sval(av[0], rt[1]))]
        if n.startswith('trap'):
            return ['__vf_check_ub(0, "llvm.trap");']
        if n.startswith('expect'):
            return ['%s = %s;' % (L(d), av[0])]
        if n.startswith('fabs'):
            return ['%s = __builtin_fabs(%s);' % (L(d), av[0])]
        if n.startswith(('is.constant',)):
            return ['%s = 0;' % L(d)]
        if n.startswith('objectsize'):
            return ['%s = (%s)-1;' % (L(d), self.ctype(rt))]
        if n.startswith(('stacksave',)):
            return ['%s = (void*)0;' % L(d)]
        if n.startswith(('stackrestore',)):
            return []
        m = re.match(r'([us])(add|sub|mul)\.with\.overflow', n)
        if m:
            t = args[0][0]
            s = m.group(1) == 's'
            opn = m.group(2)
            ct = ('int%d_t' if s else 'uint%d_t') % t[1]
            return ['{ %s r_; %s.f1 = __builtin_%s_overflow((%s)%s, (%s)%s, &r_); %s.f0 = r_; }' % (ct, L(d), opn, ct, av[0], ct, av[1], L(d))]
        m = re.match(r'(fshl|fshr|ctpop|ctlz|cttz|bswap)', n)
        if m:
            raise NotImplementedError('intrinsic ' + n)
        raise NotImplementedError('intrinsic ' + n)


def translate(text, **kw):
    return Tr(text, **kw).emit()


if __name__ == '__main__':
    import argparse
    ap = argparse.ArgumentParser()
    ap.add_argument('inp')
    ap.add_argument('out')
    ap.add_argument('--ubchk', action='store_true')
    ap.add_argument('--acc', action='append', default=[])
    ap.add_argument('--co', action='store_true')
    ap.add_argument('--yield-prim', action='append', default=[])
    a = ap.parse_args()
    src = translate(open(a.inp).read(), ubchk=a.ubchk, acc_prefixes=a.acc, co=a.co, yield_prims=a.yield_prim)
    open(a.out, 'w').write(src)

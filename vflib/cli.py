import sys, os, argparse, importlib, traceback
from vflib.core import BrokenCheck


def main():
    ap = argparse.ArgumentParser()
    sub = ap.add_subparsers(dest='cmd', required=True)
    c = sub.add_parser('check')
    c.add_argument('pid')
    c.add_argument('--tier', default=os.environ.get('VERIF_TIER', 'quick'), choices=['quick', 'thorough'])
    c.add_argument('--replay')
    sub.add_parser('setup')
    a = ap.parse_args()
    if a.cmd == 'setup':
        from vflib import setup
        sys.exit(setup.main())
    seed = int(os.environ.get('VERIF_SEED', '0') or 0)
    mod = importlib.import_module('checks.' + a.pid.lower())
    try:
        if a.replay:
            sys.exit(mod.replay(a.replay))
        sys.exit(mod.run(a.tier, seed))
    except BrokenCheck as e:
        print('BROKEN-CHECK property=%s %s' % (a.pid, str(e)[:3000]))
        sys.exit(2)
    except Exception:
        traceback.print_exc()
        print('BROKEN-CHECK property=%s internal error' % a.pid)
        sys.exit(2)


if __name__ == '__main__':
    main()

"""Pipeline: /repo working tree -> scratch copy (typename fix-its) -> clang IR -> ll2c -> CBMC; parallel query runner."""
import threading, os, sys, re, json, time, shutil, subprocess, tempfile, atexit, hashlib, difflib, signal, resource
from concurrent.futures import ThreadPoolExecutor, as_completed

VERIF = os.path.dirname(os.path.dirname(os.path.abspath(__file__)))
REPO = os.environ.get('VF_REPO', '/repo')
NCPU = int(os.environ.get('VF_JOBS', '0')) or min(16, os.cpu_count() or 4)
sys.path.insert(0, VERIF)
from vflib import ll2c

CLANG = 'clang++-14'
BASE_FLAGS = ['-std=c++20', '-O1', '-fno-vectorize', '-fno-slp-vectorize', '-fno-unroll-loops', '-fno-exceptions',
              '-fno-rtti', '-fno-strict-aliasing', '-fno-threadsafe-statics', '-fno-use-cxa-atexit', '-fno-builtin',
              '-ffreestanding', '-fno-stack-protector', '-Wno-everything', '-mllvm', '-simplifycfg-sink-common=false', '-S', '-emit-llvm', '-D__linux__=1', '-DVF_MODEL=1']
GXX_INC = ['-isystem', '/usr/include/c++/12', '-isystem', '/usr/include/x86_64-linux-gnu/c++/12']
CBMC_FLAGS = ['--unwinding-assertions', '--pointer-overflow-check', '--undefined-shift-check', '--drop-unused-functions',
              '--object-bits', '12', '--no-malloc-may-fail', '--no-standard-checks', '--bounds-check', '--pointer-check',
              '--div-by-zero-check', '--pointer-primitive-check']


class BrokenCheck(Exception):
    """machinery failure: never a violation, never a pass"""


class Workspace:
    def __init__(self, tag):
        self.dir = tempfile.mkdtemp(prefix='vf_%s_' % tag, dir=os.environ.get('VF_SCRATCH', '/tmp'))
        atexit.register(self.cleanup)
        self.repo = None
        self.fixit_diff = []
        self.src_hashes = {}
        self._lock = threading.Lock()

    def cleanup(self):
        if os.environ.get('VF_KEEP'):
            sys.stderr.write('[vf] keeping scratch %s\n' % self.dir)
            return
        shutil.rmtree(self.dir, ignore_errors=True)

    def path(self, *a):
        p = os.path.join(self.dir, *a)
        os.makedirs(os.path.dirname(p), exist_ok=True)
        return p

    # ---- scratch copy of the working tree + clang fix-its (only `typename` may be inserted) ----
    def prepare_repo(self, fixit_tus=()):
        with self._lock:
            return self._prepare_repo(fixit_tus)

    def _prepare_repo(self, fixit_tus=()):
        if self.repo:
            return self.repo
        dst = self.path('repo', 'x')[:-2]
        for sub in ('include', 'src'):
            shutil.copytree(os.path.join(REPO, sub), os.path.join(dst, sub))
        before = {}
        for root, _, files in os.walk(dst):
            for f in files:
                fp = os.path.join(root, f)
                before[fp] = open(fp, 'rb').read()
                rel = os.path.relpath(fp, dst)
                self.src_hashes[rel] = hashlib.sha256(before[fp]).hexdigest()[:16]
        # fix-its: run clang in -fixit mode over a TU that includes the headers with the P0634 problem
        tu = self.path('fixit_tu.cpp')
        with open(tu, 'w') as f:
            for h in fixit_tus or ('tulz/observer/Subject.h', 'tulz/observer/Observable.h', 'tulz/observer/routing/ConcurrentSubjectRouter.h'):
                f.write('#include <%s>\n' % h)
        for _ in range(3):
            r = subprocess.run([CLANG, '-std=c++20', '-fsyntax-only', '-Xclang', '-fixit', '-Xclang', '-fix-what-you-can', '-nostdinc++', '-isystem', os.path.join(VERIF, 'stl')] + GXX_INC +
                               ['-I', os.path.join(dst, 'include'), '-I', os.path.join(VERIF, 'rt'), '-Wno-everything', '-DVF_MODEL=1', '-D__linux__=1', '-fno-exceptions',
                                '-include', os.path.join(VERIF, 'stl', 'vf_prelude.h'), tu], capture_output=True, text=True)
            if 'error' not in r.stderr:
                break
        for fp, old in before.items():
            new = open(fp, 'rb').read()
            if new != old:
                d = [l for l in difflib.unified_diff(old.decode().split('\n'), new.decode().split('\n'), lineterm='', n=0) if l[:1] in '+-' and l[:3] not in ('+++', '---')]
                # validate: removing the token `typename ` from each added line must give the removed line
                minus = [l[1:] for l in d if l[0] == '-']
                plus = [l[1:] for l in d if l[0] == '+']
                if len(minus) != len(plus) or any(p.replace('typename ', '') != m.replace('typename ', '') for m, p in zip(minus, plus)):
                    raise BrokenCheck('clang fix-it changed more than `typename` in %s:\n%s' % (fp, '\n'.join(d)))
                self.fixit_diff.append({'file': os.path.relpath(fp, dst), 'lines': plus})
        self.repo = dst
        return dst


def sh(cmd, **kw):
    return subprocess.run(cmd, capture_output=True, text=True, **kw)


def compile_ir(ws, srcs, out_ll, defines=(), stl='model', extra=(), inline_all=False, opt_level='-O1'):
    """srcs: list of C++ files (absolute). Returns path of linked .ll"""
    repo = ws.prepare_repo()
    inc = ['-I', os.path.join(repo, 'include'), '-I', os.path.join(VERIF, 'rt'), '-I', os.path.join(VERIF, 'harness')]
    if stl == 'model':
        stlf = ['-nostdinc++', '-isystem', os.path.join(VERIF, 'stl')] + GXX_INC + ['-include', os.path.join(VERIF, 'stl', 'vf_prelude.h')]
    else:
        stlf = []
    lls = []
    for i, s in enumerate(srcs):
        o = '%s.%d.ll' % (out_ll[:-3], i)
        flags = [f if f != '-O1' else opt_level for f in BASE_FLAGS]
        cmd = [CLANG] + flags + stlf + inc + ['-D%s' % d for d in defines] + list(extra) + [s, '-o', o]
        r = sh(cmd)
        if r.returncode != 0:
            raise BrokenCheck('clang failed on %s:\n%s' % (s, r.stderr[-4000:]))
        lls.append(o)
    if len(lls) == 1 and not inline_all:
        os.replace(lls[0], out_ll)
        return out_ll
    r = sh(['llvm-link-14', '-S'] + lls + ['-o', out_ll])
    if r.returncode != 0:
        raise BrokenCheck('llvm-link failed:\n' + r.stderr[-3000:])
    if inline_all:
        tmp = out_ll + '.pre'
        os.replace(out_ll, tmp)
        r = sh(['opt-14', '-S', '-O1', '-inline-threshold=100000', '-vectorize-loops=false', '-vectorize-slp=false', tmp, '-o', out_ll])
        if r.returncode != 0:
            raise BrokenCheck('opt failed:\n' + r.stderr[-3000:])
    return out_ll


def translate(ll, out_c, **kw):
    try:
        src = ll2c.translate(open(ll).read(), **kw)
    except (NotImplementedError, SyntaxError, AssertionError, KeyError) as e:
        raise BrokenCheck('ll2c cannot translate %s: %r' % (ll, e))
    open(out_c, 'w').write(src)
    return out_c


def tulz_functions(ll):
    """demangled names of the tulz functions defined in an IR file (the 'functions encoded' of the evidence)"""
    names = re.findall(r'^define [^@]*@([-a-zA-Z$._0-9]+)\(', open(ll).read(), re.M)
    names = [n for n in names if 'tulz' in n]
    if not names:
        return []
    r = sh(['c++filt'], input='\n'.join(names))
    out = sorted(set(re.sub(r'\(.*', '', l) for l in r.stdout.split('\n') if 'tulz' in l))
    return out


class QueryResult:
    def __init__(self):
        self.status = 'ERROR'     # OK | FAIL | TIMEOUT | OOM | ERROR | UNWIND
        self.failed = []          # [(property id, description)] non-REACH failures
        self.undecided = []
        self.unreached = []       # REACH assertions that could not be reached
        self.reached = []
        self.nprops = 0
        self.vars = 0
        self.clauses = 0
        self.solver_s = 0.0
        self.wall_s = 0.0
        self.rss_mb = 0
        self.log = ''
        self.trace = None
        self.name = ''
        self.cmd = []


def _limit(mem_gb):
    def f():
        os.setsid()
        if mem_gb:
            resource.setrlimit(resource.RLIMIT_AS, (int(mem_gb * (1 << 30)), int(mem_gb * (1 << 30))))
    return f


def run_cbmc(cfiles, name='', defines=(), unwind=8, unwindset=(), timeout=600, mem_gb=12, extra=(), trace_property=None, incdirs=(), flags=None):
    """runs CBMC; plain-text UI streamed line by line for ordinary runs (cheap to parse), JSON UI only when a trace is wanted"""
    cmd = ['cbmc'] + list(cfiles) + ['-I', os.path.join(VERIF, 'rt')]
    for d in incdirs:
        cmd += ['-I', d]
    cmd += ['-D%s' % d for d in defines] + (CBMC_FLAGS if flags is None else list(flags)) + ['--unwind', str(unwind)] + list(extra)
    if unwindset:
        cmd += ['--unwindset', ','.join(unwindset)]
    if trace_property:
        cmd += ['--property', trace_property, '--trace', '--json-ui']
    else:
        cmd += ['--verbosity', '8']
    res = QueryResult()
    res.name = name
    res.cmd = cmd
    t0 = time.time()
    p = subprocess.Popen(cmd, stdout=subprocess.PIPE, stderr=subprocess.STDOUT, text=True, preexec_fn=_limit(mem_gb), errors='replace')
    killed = []

    def kill():
        killed.append(1)
        try:
            os.killpg(p.pid, signal.SIGKILL)
        except OSError:
            pass
    timer = threading.Timer(timeout, kill)
    timer.start()
    results = []
    tail = []
    try:
        if trace_property:
            out = p.stdout.read()
        else:
            out = None
            in_results = False
            for ln in p.stdout:
                c0 = ln[:1]
                if c0 == 'U' and ln.startswith('Unwinding loop'):
                    continue
                if c0 == 'N' and ln.startswith('Not unwinding'):
                    continue
                if c0 == 'a' and ln.startswith('aborting path'):
                    continue
                if c0 == '[':
                    m = re.match(r'\[(\S+)\] (?:line \d+ )?(.*): (SUCCESS|FAILURE|UNKNOWN|ERROR)\s*$', ln)
                    if m:
                        results.append({'property': m.group(1), 'description': m.group(2), 'status': m.group(3)})
                        continue
                m = re.match(r'(\d+) variables, (\d+) clauses', ln)
                if m:
                    res.vars = max(res.vars, int(m.group(1)))
                    res.clauses = max(res.clauses, int(m.group(2)))
                    continue
                m = re.match(r'Runtime Solver: ([0-9.]+)s', ln)
                if m:
                    res.solver_s += float(m.group(1))
                    continue
                tail.append(ln)
                if len(tail) > 60:
                    del tail[:20]
        p.wait()
    finally:
        timer.cancel()
    res.wall_s = time.time() - t0
    if killed:
        res.status = 'TIMEOUT'
        return res
    if trace_property:
        try:
            js = json.loads(out)
        except Exception:
            res.log = out[-2000:]
            return res
        for item in js:
            if 'result' in item:
                results = item['result']
    else:
        res.log = ''.join(tail)[-2500:]
        if not results:
            if 'bad_alloc' in res.log or 'Out of memory' in res.log or p.returncode in (-9, 134, -6):
                res.status = 'OOM'
            return res
    res.nprops = len(results)
    unwind_fail = False
    for r in results:
        d = r.get('description', '')
        st = r.get('status')
        if d.startswith('REACH:'):
            (res.reached if st == 'FAILURE' else res.unreached).append(d[6:].strip())
            continue
        if st == 'FAILURE':
            if 'unwinding assertion' in d or 'recursion unwinding' in d:
                unwind_fail = True
            res.failed.append((r.get('property'), d))
            if 'trace' in r:
                res.trace = r['trace']
        elif st not in ('SUCCESS',):
            # UNKNOWN: CBMC does not decide properties dominated by a failed fatal property (pointer checks)
            res.undecided.append((r.get('property'), d + ' [status %s]' % st))
    real = [f for f in res.failed if 'unwinding assertion' not in f[1] and 'recursion unwinding' not in f[1]]
    if unwind_fail and real:
        # counterexamples found within the unwinding bound are genuine (paths beyond the bound are cut, not invented);
        # the exploration is incomplete, which matters only for a PASS verdict
        res.unwind_names = [f[1] + ' ' + str(f[0]) for f in res.failed if f not in real]
        res.failed = real
        res.status = 'FAIL'
    elif unwind_fail:
        res.status = 'UNWIND'
    elif res.failed:
        res.status = 'FAIL'
    elif res.undecided:
        res.status = 'ERROR'
        res.log += 'undecided properties without any failure: %s' % res.undecided[:3]
    else:
        res.status = 'OK'
    return res


def run_parallel(jobs, nworkers=None, progress=None):
    """jobs: list of callables returning QueryResult; returns results in order"""
    results = [None] * len(jobs)
    with ThreadPoolExecutor(max_workers=nworkers or NCPU) as ex:
        futs = {ex.submit(j): i for i, j in enumerate(jobs)}
        for f in as_completed(futs):
            i = futs[f]
            try:
                results[i] = f.result()
            except BrokenCheck as e:
                r = QueryResult()
                r.status = 'ERROR'
                r.log = str(e)
                results[i] = r
            if progress:
                progress(i, results[i])
    return results


def nondet_values_from_trace(trace):
    """values returned by the __vf_nondet_* hooks, in call order (each hook stores its value in a local `vf_nd`)"""
    vals = []
    for st in trace or []:
        if st.get('stepType') == 'assignment' and st.get('lhs') == 'vf_nd' and not st.get('hidden'):
            v = st.get('value', {})
            fn = st.get('sourceLocation', {}).get('function', '')
            b = v.get('binary')
            vals.append({'fn': fn, 'value': int(b, 2) if b else 0})
    return vals

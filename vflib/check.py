"""Check driver: plan queries -> run in parallel -> vacuity / bound / violation classification -> replay -> evidence."""
import os, sys, json, time, random, subprocess, shutil, re
from vflib import core
from vflib.core import BrokenCheck, VERIF

KNOWN = os.path.join(VERIF, 'known_findings.txt')


class Query:
    """One solver query: a harness TU compiled with `defines`, translated, and decided by CBMC."""

    def __init__(self, name, srcs, defines=(), stl='model', unwind=8, unwindset=(), timeout=600, mem_gb=12, desc=None,
                 rt=('rt_cbmc.c', 'rt_main.c'), cbmc_defines=(), expect_reach=None, ll2c_kw=None, inline_all=False, extra_cbmc=(), group=None, exclude=()):
        self.name = name
        self.srcs = list(srcs)
        self.defines = list(defines)
        self.stl = stl
        self.unwind = unwind
        self.unwindset = list(unwindset)
        self.timeout = timeout
        self.mem_gb = mem_gb
        self.desc = desc or {}
        self.rt = list(rt)
        self.cbmc_defines = list(cbmc_defines)
        self.ll2c_kw = ll2c_kw or {}
        self.inline_all = inline_all
        self.extra_cbmc = list(extra_cbmc)
        self.group = group
        self.required_reach = expect_reach   # None: every REACH witness of the unit must be reachable
        self.result = None
        self.cfile = None
        self.ll = None


class _MemBudget:
    """admission control: the expected memory (GB) of the queries running at the same time stays below the budget"""

    def __init__(self, total):
        import threading
        self.total = total
        self.used = 0
        self.cv = threading.Condition()

    def acquire(self, w):
        w = min(w, self.total)
        with self.cv:
            while self.used + w > self.total:
                self.cv.wait()
            self.used += w

    def release(self, w):
        w = min(w, self.total)
        with self.cv:
            self.used -= w
            self.cv.notify_all()


class Check:
    level = 'model_checking'

    def __init__(self, pid, tier, seed=0):
        self.pid = pid
        self.tier = tier
        self.seed = seed
        self.ws = core.Workspace(pid)
        self.t0 = time.time()
        self.assumptions = []
        self.bounds = {}
        self.functions = []
        self.notes = []
        self.known = self.load_known()
        self.known_hits = []
        self.violations = []       # (query, description, replay path)
        self.broken = []           # reasons
        self.replays_confirmed = 0
        self.validation = {}
        self.extra_cov = {}

    # ---------- known findings ----------
    def load_known(self):
        out = []
        if os.path.exists(KNOWN):
            for ln in open(KNOWN):
                ln = ln.strip()
                m = re.match(r'finding: property=(\S+) key=(\S+) (.*)', ln)
                if m and m.group(1) == self.pid:
                    out.append({'key': m.group(2), 'text': m.group(3)})
        return out

    # ---------- building and running ----------
    def build(self, q):
        tag = re.sub(r'[^A-Za-z0-9_]', '_', q.name)
        q.ll = core.compile_ir(self.ws, q.srcs, self.ws.path(tag + '.ll'), defines=q.defines, stl=q.stl, inline_all=q.inline_all)
        q.cfile = core.translate(q.ll, self.ws.path(tag + '.c'), **q.ll2c_kw)
        return q

    def run_query(self, q, trace_property=None):
        if q.cfile is None:
            self.build(q)
        files = [q.cfile] + [os.path.join(VERIF, 'rt', r) for r in q.rt]
        r = core.run_cbmc(files, name=q.name, defines=q.cbmc_defines, unwind=q.unwind, unwindset=q.unwindset, timeout=q.timeout,
                          mem_gb=q.mem_gb, extra=q.extra_cbmc, trace_property=trace_property, flags=getattr(q, 'cbmc_flags', None))
        if trace_property is None:
            q.result = r
            if not os.environ.get('VF_KEEP') and not getattr(q, 'keep_c', False):
                for f in (q.cfile, q.ll):
                    try:
                        os.unlink(f)
                    except OSError:
                        pass
                q.cfile_removed = True
        return r

    def run_all(self, queries):
        order = list(range(len(queries)))
        random.Random(self.seed).shuffle(order)

        def est(q):
            if getattr(q, 'cost', None):
                return q.cost
            # scheduler queries: cost grows with the schedule length; start the long ones first so that the wall time is max(longest, total/cores)
            for d in q.cbmc_defines:
                if d.startswith('VF_K='):
                    return int(d[5:])
            return 0
        order.sort(key=lambda i: -est(queries[i]))   # stable: equal estimates keep the seeded shuffle
        # longest-first would be better, but the order only matters for wall time: the set of queries is fixed
        n = [0]

        budget = _MemBudget(int(os.environ.get('VF_MEM_BUDGET_GB', '48')))

        def mk(q):
            def f():
                w = getattr(q, 'mem_weight', 1)
                budget.acquire(w)
                try:
                    return self.run_query(q)
                except BrokenCheck as e:
                    r = core.QueryResult()
                    r.name = q.name
                    r.status = 'ERROR'
                    r.log = str(e)
                    q.result = r
                    return r
                finally:
                    budget.release(w)
            return f

        def prog(i, r):
            n[0] += 1
            if os.environ.get('VF_VERBOSE') or r.status != 'OK':
                sys.stderr.write('[%s %d/%d] %s %s %.1fs %s\n' % (self.pid, n[0], len(queries), r.name, r.status, r.wall_s,
                                                                   (r.failed[:2] or r.unreached[:2] or r.log[-300:]) if r.status != 'OK' else ''))
        core.run_parallel([mk(queries[i]) for i in order], progress=prog)
        return queries

    def collect_functions(self, srcs, defines=(), stl='model'):
        """tulz functions present in the unit before inlining (-O0 IR of the same TU)"""
        try:
            ll = core.compile_ir(self.ws, srcs, self.ws.path('fnlist.ll'), defines=defines, stl=stl, opt_level='-O0')
            self.functions = sorted(set(self.functions) | set(core.tulz_functions(ll)))
            os.unlink(ll)
        except BrokenCheck as e:
            self.notes.append('function list unavailable: %s' % str(e)[:200])

    # ---------- counterexamples ----------
    def counterexample(self, q, prop):
        """re-run q with --trace for one failing property; returns the list of nondet values"""
        if (getattr(q, 'cfile_removed', False) or q.cfile is None or not os.path.exists(q.cfile)) and not getattr(q, 'keep_c', False):
            q.cfile = None
            self.build(q)
        r = self.run_query(q, trace_property=prop)
        if r.trace is None:
            return None
        return core.nondet_values_from_trace(r.trace)

    def write_replay(self, q, desc, values):
        d = os.path.join(VERIF, 'replays', self.pid)
        os.makedirs(d, exist_ok=True)
        path = os.path.join(d, re.sub(r'[^A-Za-z0-9_]', '_', q.name) + '.json')
        json.dump({'property': self.pid, 'query': q.name, 'harness': [os.path.relpath(s, VERIF) for s in q.srcs], 'defines': q.defines + q.cbmc_defines, 'stl': q.stl, 'native_extra': [r for r in ('rt/cube.c',) if os.path.basename(r) in q.rt], 'native_cpp': (['rt/rt_native_fs.cpp'] if 'rt_fs.c' in q.rt else []),
                   'failed_assertion': desc, 'nondet': values, 'repo_srcs': getattr(q, 'native_repo_srcs', []), 'shim': getattr(q, 'native_shim', False),
                   'native_defines': getattr(q, 'native_defines', []), 'native_racy': getattr(q, 'native_racy', {})}, open(path, 'w'), indent=1)
        return path

    def native_replay(self, path, extra_srcs=(), san=True, timeout=120, extra_flags=(), repo=None):
        """build the same harness natively (g++, real libstdc++, ASan/UBSan) and feed it the recorded nondet values.
        returns (reproduced: bool, output)"""
        rp = json.load(open(path))
        repo = repo or core.REPO
        if rp.get('native_racy'):
            repo = self.racy_copy(repo, rp['native_racy'])
        exe = self.ws.path('replay_%s' % os.path.basename(path).replace('.json', ''))
        srcs = [os.path.join(VERIF, s) for s in rp['harness']] + [os.path.join(VERIF, 'rt', 'rt_native.cpp')] + list(extra_srcs)
        srcs += [os.path.join(repo, s) for s in rp.get('repo_srcs', [])]
        srcs += [os.path.join(VERIF, s) for s in rp.get('native_cpp', [])]
        shimflags = []
        if rp.get('shim'):
            # schedule replay: <mutex>/<condition_variable>/<thread> come from /verif/shim (cooperative pthreads driven by the recorded schedule)
            srcs.append(os.path.join(VERIF, 'shim', 'vf_shim.cpp'))
            # -D_GLIBCXX_MUTEX_H: the real <bits/std_mutex.h> (pulled in by <atomic>) must not define std::mutex next to the shim's
            shimflags = ['-I', os.path.join(VERIF, 'shim'), '-DVF_NO_MAIN=1', '-D_GLIBCXX_MUTEX_H=1'] + (['-DVF_RACY_WAIT_YIELD=1'] if rp.get('native_racy') else [])
        extra_flags = list(extra_flags) + shimflags + ['-D%s' % d for d in rp.get('native_defines', [])]
        cfiles = [os.path.join(VERIF, s) for s in rp.get('native_extra', [])]
        objs = []
        for cf in cfiles:
            o = self.ws.path(os.path.basename(cf) + '.o')
            r = subprocess.run(['gcc', '-c', cf, '-o', o] + ['-D%s' % d for d in rp['defines']], capture_output=True, text=True)
            if r.returncode != 0:
                raise BrokenCheck('native replay build failed:\n' + r.stderr[-2000:])
            objs.append(o)
        srcs = srcs + objs
        cmd = ['g++', '-std=c++20', '-g', '-O0', '-fno-omit-frame-pointer'] + (['-fsanitize=address,undefined', '-fno-sanitize-recover=undefined'] if san else []) + \
              ['-I', os.path.join(repo, 'include'), '-I', os.path.join(VERIF, 'rt'), '-I', os.path.join(VERIF, 'harness'), '-DVF_NATIVE=1'] + \
              ['-D%s' % d for d in rp['defines']] + list(extra_flags) + srcs + ['-o', exe, '-lpthread']
        r = subprocess.run(cmd, capture_output=True, text=True)
        if r.returncode != 0:
            raise BrokenCheck('native replay build failed:\n' + r.stderr[-3000:])
        vals = self.ws.path('replay_vals.txt')
        schedf = self.ws.path('replay_sched.txt')
        with open(vals, 'w') as f, open(schedf, 'w') as g:
            for v in rp['nondet']:
                if v.get('fn') == 'vf_run':
                    val = v['value']
                    g.write('%d\n' % (val - (1 << 32) if val >= (1 << 31) else val))
                else:
                    f.write('%s\n' % v['value'])
        env = dict(os.environ, VF_REPLAY=vals, VF_SCHEDULE=schedf, ASAN_OPTIONS='detect_leaks=1:abort_on_error=0:exitcode=42:detect_stack_use_after_return=1' + os.environ.get('VF_ASAN_EXTRA', ''), UBSAN_OPTIONS='print_stacktrace=1')
        try:
            r = subprocess.run([exe], capture_output=True, text=True, errors='replace', timeout=timeout, env=env)
        except subprocess.TimeoutExpired:
            return False, 'native replay timed out'
        out = (r.stdout + r.stderr)[-4000:]
        return r.returncode != 0 and r.returncode != 3, 'exit=%d\n%s' % (r.returncode, out)

    def racy_copy(self, repo, racy):
        """scratch copy of the tree's include/ and src/ in which every access to the named racy fields (inside function bodies) goes through
        vf_racy(): a scheduling point of the replay shim, at the places where the model has its racy scheduling points"""
        dst = self.ws.path('racy_repo')
        if os.path.exists(dst):
            shutil.rmtree(dst)
        os.makedirs(dst)
        for d in ('include', 'src'):
            shutil.copytree(os.path.join(repo, d), os.path.join(dst, d))
        for rel, fields in racy.items():
            f = os.path.join(dst, rel)
            txt = open(f).read()
            for fld in fields:
                # not the declaration (`bool m_x = ...;` / `std::atomic<bool> m_x`), not a constructor initialiser `m_x(...)`
                txt = re.sub(r'(?<!bool )(?<!> )(?<![\w.>])\b%s\b(?!\s*[({])' % re.escape(fld), 'vf_racy(%s)' % fld, txt)
            txt = '#include "vf_racy_native.h"\n' + txt
            open(f, 'w').write(txt)
        return dst

    # ---------- classification ----------
    def classify(self, queries, finding_of=None, required_reach=None):
        """finding_of(q, prop, desc) -> key of a known-findings entry or None"""
        for q in queries:
            r = q.result
            if r.status in ('TIMEOUT', 'OOM', 'ERROR'):
                self.broken.append('%s: %s %s' % (q.name, r.status, r.log[-300:].replace('\n', ' ')))
                continue
            if r.status == 'UNWIND':
                self.broken.append('%s: unwinding assertion failed (bound too small): %s' % (q.name, [str(p_) for p_, d in r.failed if 'unwinding' in d][:4]))
                continue
            bound_fail = [d for _, d in r.failed if d.startswith('BOUND:')]
            prop_fail = [(p_, d) for p_, d in r.failed if not d.startswith('BOUND:')]
            if bound_fail and prop_fail and getattr(q, 'bound_follows_property', False):
                # e.g. a deadlock also makes "every thread finishes within K steps" fail: decide the property failure first; the bound
                # failure is a consequence if that counterexample is confirmed (or is a listed finding)
                before = len(self.violations) + len(self.known_hits)
                allf = r.failed
                r.failed = prop_fail
                self.handle_failure(q, finding_of)
                r.failed = allf
                if len(self.violations) + len(self.known_hits) == before:
                    self.broken.append('%s: stated bound exceeded: %s' % (q.name, bound_fail[:3]))
                continue
            if bound_fail:
                self.broken.append('%s: stated bound exceeded: %s' % (q.name, bound_fail[:3]))
                continue
            missing = r.unreached if q.required_reach is None else [w for w in q.required_reach if w not in r.reached]
            if missing:
                r.unreached = missing
                self.broken.append('%s: vacuous: witness(es) unreachable: %s' % (q.name, r.unreached[:4]))
            if r.status == 'FAIL':
                self.handle_failure(q, finding_of)

    def handle_failure(self, q, finding_of):
        r = q.result
        # group failures by known-finding key
        prop, desc = r.failed[0]
        key = finding_of(q, r.failed) if finding_of else None
        if key and any(k['key'] == key for k in self.known):
            self.known_hits.append((key, q.name, desc))
            return
        if len(self.violations) + len([b for b in self.broken if 'UNCONFIRMED' in b]) >= 3:
            self.notes.append('further failing query not replayed (limit 3 per run): %s: %s' % (q.name, desc))
            self.violations_unreplayed = getattr(self, 'violations_unreplayed', 0) + 1
            return
        # prefer harness-level property assertions (deterministic natively), then memory-safety ones
        cands = sorted(r.failed, key=lambda pd: 0 if pd[1].startswith('property:') else 1)[:3]
        last = ''
        for prop, desc in cands:
            vals = self.counterexample(q, prop)
            if vals is None:
                last = 'no trace for %s' % desc
                continue
            path = self.write_replay(q, desc, vals)
            ok, out = self.confirm(q, path)
            if ok:
                self.replays_confirmed += 1
                self.violations.append((q, desc, path, out, [d for _, d in r.failed][:8]))
                return
            last = 'replay %s of "%s" did not reproduce on the real build: %s' % (path, desc, out[-600:])
        self.broken.append('%s: UNCONFIRMED-COUNTEREXAMPLE %s' % (q.name, last))

    def confirm(self, q, path):
        return self.native_replay(path)

    # ---------- evidence ----------
    def finish(self, queries, rule, samples=None, trusted=None, stubs=None):
        wall = time.time() - self.t0
        ok = [q for q in queries if q.result and q.result.status == 'OK' and not (q.result.unreached if q.required_reach is None else [w for w in q.required_reach if w not in q.result.reached])]
        cov = {
            'evaluations': len(queries),
            'distinct_nontrivial': len(set(q.name for q in ok if q.result.reached or q.result.nprops > 0)),
            'rule': rule,
            'samples': (samples or [dict(q.desc, query=q.name, status=q.result.status if q.result else None, properties=q.result.nprops if q.result else 0,
                                       reached=q.result.reached if q.result else []) for q in queries[:6]]),
            'queries_planned': len(queries),
            'queries_discharged': len(ok),
            'assertions_checked': sum(q.result.nprops for q in queries if q.result),
            'reach_witnesses_confirmed': sum(len(q.result.reached) for q in queries if q.result),
            'sat_variables_total': sum(q.result.vars for q in queries if q.result),
            'sat_clauses_total': sum(q.result.clauses for q in queries if q.result),
            'solver_seconds_total': round(sum(q.result.solver_s for q in queries if q.result), 2),
            'cbmc_wall_seconds_total': round(sum(q.result.wall_s for q in queries if q.result), 2),
            'max_rss_mb': max([q.result.rss_mb for q in queries if q.result] or [0]),
            'slowest_queries': [[q.name, round(q.result.wall_s, 1)] for q in sorted([q for q in queries if q.result], key=lambda q: -q.result.wall_s)[:6]],
            'functions_encoded': self.functions,
            'bounds': self.bounds,
            'stubs': stubs or [],
            'trusted_base': trusted or ['clang-14 -O1 front end', 'll2c translator', 'CBMC 6.11 + MiniSat', 'runtime models under /verif/rt'],
            'fixit_diff': self.ws.fixit_diff,
            'source_hashes': self.ws.src_hashes,
            'exhaustive': False,
            'counterexamples_replayed_on_real_build': self.replays_confirmed,
            'known_findings_hit': [k for k, _, _ in self.known_hits],
            'broken': self.broken[:10],
            'notes': self.notes,
            'validation': self.validation,
        }
        cov.update(self.extra_cov)
        ev = {'property_id': self.pid, 'tier': self.tier, 'seed': self.seed, 'level': self.level, 'coverage': cov,
              'assumptions': self.assumptions, 'wall_s': round(wall, 2), 'violations': len(self.violations)}
        os.makedirs(os.path.join(VERIF, 'evidence'), exist_ok=True)
        json.dump(ev, open(os.path.join(VERIF, 'evidence', self.pid + '.json'), 'w'), indent=1)
        for key in sorted(set(k for k, _, _ in self.known_hits)):
            txt = next(k['text'] for k in self.known if k['key'] == key)
            print('KNOWN-FINDING: property=%s %s' % (self.pid, txt))
        for (q, desc, path, out, alld) in self.violations:
            print('VIOLATION property=%s replay=%s' % (self.pid, path))
            print('  query %s: %s' % (q.name, desc))
            for d in alld[1:4]:
                print('  also failing: %s' % d)
            print('  replay on the real build: ' + out.strip().split('\n')[0])
        if self.violations:
            return 1
        if self.broken:
            for b in self.broken[:20]:
                print('BROKEN-CHECK property=%s %s' % (self.pid, b))
            return 2
        print('OK property=%s tier=%s queries=%d assertions=%d solver=%.1fs wall=%.1fs' % (self.pid, self.tier, len(queries), cov['assertions_checked'], cov['solver_seconds_total'], wall))
        return 0

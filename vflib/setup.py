"""setup: byte-compile the framework and verify the tool chain is present (everything else is rebuilt per check run)"""
import compileall, shutil, sys, os, subprocess
from vflib.core import VERIF


def main():
    ok = compileall.compile_dir(os.path.join(VERIF, 'vflib'), quiet=1) and compileall.compile_dir(os.path.join(VERIF, 'checks'), quiet=1)
    for tool in ('clang++-14', 'llvm-link-14', 'opt-14', 'cbmc', 'g++', 'c++filt'):
        if not shutil.which(tool):
            print('missing tool: ' + tool)
            ok = False
    print('setup ' + ('ok' if ok else 'FAILED'))
    return 0 if ok else 1

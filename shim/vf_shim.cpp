#include "vf_shim.h"
#include <cstring>
#include <string>
#include <unistd.h>
namespace vfshim {
static Thr thr[16]; static int nthr = 0; static int cur = 0;
}
extern "C" { unsigned vf_no_park = 0; }
namespace vfshim {
static std::vector<int> sched; static size_t sched_i = 0;
static sem_t main_done;
int self() { return cur; }
void fail(const char *msg) { fprintf(stderr, "CHECK-FAILED: %s\n", msg); fflush(stderr); _Exit(1); }
static bool enabled(int t) {
  Thr &T = thr[t]; if (!T.started || T.done) return false;
  switch (T.wkind) { case W_NONE: return true; case W_MUTEX: return ((mutex_state *) T.wobj)->held == 0; case W_CV: return T.notified && ((mutex_state *) T.wmtx)->held == 0;
    case W_JOIN: return thr[T.warg].done; default: return *(int *) T.wobj >= T.warg; }
}
static int pick() {
  // next recorded choice that is enabled; after the recording ends: lowest enabled thread
  while (sched_i < sched.size()) { int t = sched[sched_i++]; if (t >= 0 && t < nthr && enabled(t)) return t; fprintf(stderr, "REPLAY-NOTE: recorded choice %d not enabled at step %zu, skipped\n", t, sched_i); }
  for (int t = 0; t < nthr; t++) if (enabled(t)) return t;
  return -1;
}
static void switch_from(int me) {
  int nx = pick();
  if (nx < 0) {
    bool all = true; for (int t = 0; t < nthr; t++) if (thr[t].started && !thr[t].done) all = false;
    if (all) { sem_post(&main_done); if (me >= 0) sem_wait(&thr[me].go); return; }
    fprintf(stderr, "CHECK-FAILED: deadlock / lost wake-up: unfinished threads exist and none can make progress\n");
    for (int t = 0; t < nthr; t++) if (thr[t].started && !thr[t].done) fprintf(stderr, "  thread %d waits (kind %d)\n", t, thr[t].wkind);
    fflush(stderr); _Exit(1);
  }
  if (nx == me) return;
  cur = nx; sem_post(&thr[nx].go);
  if (me >= 0) { sem_wait(&thr[me].go); cur = me; }
}
void sched_point() { switch_from(cur); }
static void *tramp(void *p) { int id = (int) (long) p; sem_wait(&thr[id].go); cur = id; thr[id].fn(thr[id].arg); thr[id].done = true; thr[id].wkind = W_NONE; switch_from(-1 - 0 * id); return nullptr; }
int create(void (*fn)(void *), void *arg) { int id = nthr++; Thr &T = thr[id]; T.fn = fn; T.arg = arg; T.started = true; sem_init(&T.go, 0, 0); pthread_create(&T.pt, nullptr, tramp, (void *) (long) id); return id; }
void join(int id) { Thr &T = thr[cur]; T.wkind = W_JOIN; T.warg = id; sched_point(); T.wkind = W_NONE; }
void yield() { thr[cur].wkind = W_NONE; sched_point(); }
void wait_until(int *c, int n) { Thr &T = thr[cur]; T.wkind = W_UNTIL; T.wobj = c; T.warg = n; sched_point(); T.wkind = W_NONE; }
void mutex_lock(mutex_state *m) { Thr &T = thr[cur]; T.wkind = W_MUTEX; T.wobj = m; sched_point(); if (m->held) fail("shim: mutex not free on acquire"); m->held = cur + 1; T.wkind = W_NONE; }
void mutex_unlock(mutex_state *m) { if (m->held != (unsigned) cur + 1) fail("unlock of a mutex not held by the calling thread"); m->held = 0; }
void cv_wait(void *cv, mutex_state *m) {
#ifdef VF_RACY_WAIT_YIELD
  yield();   // racy configuration of the model: a scheduling point between the evaluation of the wait predicate and blocking
#endif
  if (vf_no_park) fail("this request must be granted without waiting"); Thr &T = thr[cur]; m->held = 0; T.wkind = W_CV; T.wobj = cv; T.wmtx = m; T.notified = false; extern void on_park(int); on_park(cur); sched_point(); m->held = cur + 1; T.wkind = W_NONE; }
void cv_notify_all(void *cv) { thr[cur].wkind = W_NONE; sched_point(); for (int t = 0; t < nthr; t++) if (thr[t].wkind == W_CV && thr[t].wobj == cv) thr[t].notified = true; }
void cv_notify_one(void *cv) { thr[cur].wkind = W_NONE; sched_point(); for (int t = 0; t < nthr; t++) if (thr[t].wkind == W_CV && thr[t].wobj == cv && !thr[t].notified) { thr[t].notified = true; break; } }
extern "C" void vf_on_park(unsigned t);
void on_park(int t) { vf_on_park((unsigned) t); }
void load_schedule() { if (const char *p = getenv("VF_SCHEDULE")) if (FILE *f = fopen(p, "r")) { int v; while (fscanf(f, "%d", &v) == 1) sched.push_back(v); fclose(f); } }
void run_prestarted(int n, void (*body)(void *)) {
  sem_init(&main_done, 0, 0); load_schedule();
  for (int i = 0; i < n; i++) create(body, (void *) (long) i);
  cur = -1; switch_from(-1);
  sem_wait(&main_done);
}
}
// harness-facing C API (same names as the model runtime)
extern "C" {
int __vf_thread_create(void (*fn)(void *), void *arg) { return vfshim::create(fn, arg); }
void __vf_thread_join(int id) { vfshim::join(id); }
void __vf_yield(void) { vfshim::yield(); }
void __vf_wait_until(void *c, int n) { vfshim::wait_until((int *) c, n); }
int __vf_self(void) { return vfshim::self(); }
void vf_thread(int t); void vf_final(void);
}
static void body(void *p) { vf_thread((int) (long) p); }
#ifndef VF_PRESTART
#define VF_PRESTART 1
#endif
int main() { vfshim::run_prestarted(VF_PRESTART, body); vf_final(); fprintf(stderr, "replay finished: all threads completed\n"); return 0; }

// Schedule shim for native replays: cooperative threads on real pthreads with a baton. Only one thread runs at a time; at every
// synchronisation operation the running thread records what it waits for, the scheduler picks the next thread from the recorded
// schedule (thread choices of the CBMC counterexample) and passes the baton. Same step semantics as rt/rt_sched.c, but the code that
// runs is the real g++ build of tulz with the real libstdc++ containers.
#pragma once
#include <pthread.h>
#include <semaphore.h>
#include <cstdio>
#include <cstdlib>
#include <vector>
namespace vfshim {
enum { W_NONE, W_MUTEX, W_CV, W_JOIN, W_UNTIL };
struct Thr { pthread_t pt; sem_t go; bool started = false, done = false; int wkind = W_NONE; void *wobj = nullptr, *wmtx = nullptr; int warg = 0; bool notified = false; void (*fn)(void *) = nullptr; void *arg = nullptr; };
int self();
void sched_point();                 // give the scheduler the chance to switch (called with the wait state already recorded)
int create(void (*fn)(void *), void *arg);
void join(int id);
void yield();
void wait_until(int *counter, int n);
struct mutex_state { unsigned held = 0; };
void mutex_lock(mutex_state *m);
void mutex_unlock(mutex_state *m);
void cv_wait(void *cv, mutex_state *m);
void cv_notify_all(void *cv);
void cv_notify_one(void *cv);
void fail(const char *msg);
}

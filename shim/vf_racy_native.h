// native replay only: accesses to fields that the model treats as racy scheduling points go through vf_racy(),
// which yields to the schedule shim (the real code has no synchronisation operation there, the model has a scheduling point)
#pragma once
namespace vfshim { void yield(); }
template<class T> inline T &vf_racy(T &x) { vfshim::yield(); return x; }
template<class T> inline const T &vf_racy(const T &x) { vfshim::yield(); return x; }

"""C10: Subject tolerates callbacks that change it during notify — per-observer action cubes x SAT query each."""
import os, itertools
from vflib.check import Check
from vflib.core import VERIF
from checks.skel import Unit, CubeQuery, run_cubes

H = os.path.join(VERIF, 'harness', 'h_subj_re.cpp')
AN = {0: 'nothing', 1: 'unsubscribe self', 2: 'unsubscribe', 3: 'subscribe new', 4: 'mute', 5: 'invalidate self', 6: 'invalidate', 7: 'nested notify', 8: 'unmute'}


def actions(i, n):
    out = [(0, 0), (1, 0), (3, 0), (5, 0), (7, 0)]
    out += [(2, j) for j in range(n) if j != i] + [(6, j) for j in range(n) if j != i]
    out += [(4, j) for j in range(n)] + [(8, j) for j in range(n)]
    return out


def plan(tier):
    unit = Unit('subj_re', [H])
    qs = []
    combos = []
    SHAPE = (1, 2, 3, 5, 6)   # actions that change which heap nodes exist
    for n in (1, 2, 3):
        acts = [actions(i, n) for i in range(n)]
        for c in itertools.product(*acts):
            active = [i for i, a in enumerate(c) if a[0] != 0]
            shape = any(a[0] in SHAPE for a in c)
            if tier == 'quick' and n == 3 and len(active) > 2:
                continue
            # rounds in which each non-trivial action fires: 1 = first round, 2 = second round, 3 = both
            if n == 1:
                pats = (1, 2, 3)
            elif n == 2:
                pats = (1,) if tier == 'quick' else (1, 2, 3)
            else:
                pats = (1,)
            # initial mute flags: symbolic (-1) when no action changes the heap shape, otherwise enumerated
            if not shape:
                mutes = (-1,)
            elif n <= 2:
                mutes = tuple(range(1 << n))
            else:
                mutes = (0,) if tier == 'quick' else (0, 1, 2, 4)
            for fp in itertools.product(*[pats if i in active else (0,) for i in range(n)]):
                for mu in mutes:
                    combos.append((n, c, fp, mu))
    for n, c, fp, mu in combos:
        cube = []
        for i in range(3):
            cube += list(c[i]) if i < n else [0, 0]
        bits = sum(fp[i] << (2 * i) for i in range(n)) | (0x800 if mu < 0 else (mu << 8))
        cube += [n, bits]
        name = 'n%d_%s_f%s_m%s' % (n, '_'.join('%d.%d' % x for x in c), ''.join(str(x) for x in fp), 'S' if mu < 0 else str(mu))
        qs.append(CubeQuery(name, unit, cube, unwind=64, timeout=120, expect_reach=['end'],
                            desc={'observers': n, 'callback_actions': ['%s(%d)' % (AN[k], t) for k, t in c], 'fires_in_rounds(bitmask per observer)': list(fp),
                                  'initial_mute_flags': 'symbolic' if mu < 0 else mu, 'symbolic': 'argument values' + (', initial mute flags' if mu < 0 else ''), 'rounds': 2, 'nesting': 1}))
    return [unit], qs


def run(tier, seed):
    ck = Check('C10', tier, seed)
    units, qs = plan(tier)
    ck.bounds = {'initial observers': '1..3' + (' (3 observers: at most 2 with a non-trivial action)' if tier == 'quick' else ''), 'observers subscribed by callbacks': 'up to 6 in total',
                 'actions': list(AN.values()), 'rounds': 2, 'notify nesting depth': 1, 'outside': 'more observers, deeper nesting, callbacks that perform several actions'}
    ck.assumptions = ['model STL containers (see C05)', 'a callback touches another observer only through a handle that isValid()', 'allocation never fails']
    ck.collect_functions([H])
    run_cubes(ck, units, qs)
    ck.classify(qs)
    return ck.finish(qs, rule='cube = (number of observers, action kind, target and firing round(s) of every callback); one CBMC query per cube decides over initial mute flags and argument values; the oracle is a reference '
                     'simulation of the round (removed before turn => skipped, added => next round, round continues) plus CBMC use-after-free checks on every observer object',
                     stubs=['std::forward_list', 'std::set', 'std::function', 'std::unique_ptr'])


def replay(path):
    ck = Check('C10', 'quick', 0)
    ok, out = ck.native_replay(path)
    print(out)
    if ok:
        print('VIOLATION property=C10 replay=%s' % path)
        return 1
    return 0

"""C04: RingBuffer behaves as a bounded deque — one inductive step from an arbitrary valid state + constructor base cases."""
import os
from vflib.check import Check, Query
from vflib.core import VERIF

H = os.path.join(VERIF, 'harness', 'h_rb.cpp')
OPS = {0: 'push_back', 1: 'push_front', 2: 'emplace_back', 3: 'emplace_front', 4: 'pop_back', 5: 'pop_front', 6: 'resize', 7: 'copy-construct',
       8: 'copy-assign', 9: 'move-construct', 10: 'move-assign', 11: 'operator==', 12: 'self-assign'}
NEWCAP_OPS = (6, 11)


def plan(tier):
    maxcap = 4 if tier == 'quick' else 6
    qs = []
    for ow in (False, True):
        for cap in range(1, maxcap + 1):
            base = ['CAP=%d' % cap, 'OW=%s' % ('true' if ow else 'false')]
            qs.append(Query('base_cap%d_ow%d' % (cap, ow), [H], base + ['BASE=1', 'NEWCAP=1'], stl='real', unwind=cap + 3, timeout=300,
                            desc={'kind': 'base case (constructors)', 'capacity': cap, 'overwrite': ow}))
            for op, nm in OPS.items():
                for newcap in (range(1, maxcap + 1) if op in NEWCAP_OPS else (1,)):
                    if op == 6 and newcap == cap:
                        continue
                    qs.append(Query('step_%s_cap%d_new%d_ow%d' % (nm.replace('-', '_').replace('=', 'eq'), cap, newcap, ow), [H], base + ['OP=%d' % op, 'NEWCAP=%d' % newcap],
                                    stl='real', unwind=max(cap, newcap) + 3, timeout=600 if tier == 'quick' else 1800,
                                    desc={'kind': 'inductive step', 'operation': nm, 'capacity': cap, 'new_capacity_or_other_capacity': newcap if op in NEWCAP_OPS else None, 'overwrite': ow,
                                          'symbolic': 'head position, size, all element values, operation argument'}))
    return qs, maxcap


def run(tier, seed):
    ck = Check('C04', tier, seed)
    qs, maxcap = plan(tier)
    ck.bounds = {'capacity': '1..%d' % maxcap, 'new capacity (resize) / capacity of the compared buffer': '1..%d' % maxcap, 'overwrite modes': 'both',
                 'element type': 'int', 'history length': 'unbounded within the capacity bound (1-step induction from an arbitrary state satisfying the representation invariant)',
                 'unwind': 'max(capacity,newcapacity)+3 with unwinding assertions', 'outside': 'capacities > %d; resize(0); element types other than int (see C09 for a class type)' % maxcap}
    ck.assumptions = ['documented preconditions: no pop/front/back on empty, no push on a full non-overwriting buffer, index < size',
                      'pre-state = any (m_pos, m_size, contents) with 0 <= m_pos < capacity, m_size <= capacity; the invariant is re-asserted after every operation, which makes the step inductive',
                      'allocation never fails (malloc returning NULL is out of scope)', 'real libstdc++ headers <iterator>/<algorithm>; malloc/realloc/free/memcpy are CBMC built-ins with bounds checking']
    ck.collect_functions([H], ['CAP=2', 'NEWCAP=3', 'OW=false'], stl='real')
    ck.run_all(qs)
    ck.classify(qs)
    return ck.finish(qs, rule='one CBMC query per (operation kind, capacity, [new capacity], overwrite mode); inside each query the solver decides over every head position, size, element value and argument; '
                     'non-trivial = query discharged (all assertions proved) with its REACH witness(es) shown reachable')


def replay(path):
    ck = Check('C04', 'quick', 0)
    ok, out = ck.native_replay(path)
    print(out)
    if ok:
        print('VIOLATION property=C04 replay=%s' % path)
        return 1
    return 0

"""C07: ThreadPool runs every task at most once and owns it until it is destroyed exactly once."""
from checks.pool_common import *


def plan(tier):
    # C07 uses the sync-only configuration (racy=False): task ownership is decided under the side condition "no data race" (C15 c), which makes
    # context switches at synchronisation operations complete; the racy window of stop() is C08's subject.
    # (owner program, max threads, K, complete runs?, cube bits)   ops: 1 start(task), 2 clear(), 3 stop(), 4 wait for all submitted tasks; a final stop() is always appended
    if tier == 'quick':
        progs = [((1, 1, 2), 1, 20, False, 4), ((1, 4), 1, 20, True, 3)]
    else:
        progs = [((1, 4), 1, 22, True, 3), ((1, 1, 4), 1, 32, True, 4), ((1, 1, 2), 1, 26, False, 4), ((1, 2, 1, 4), 1, 30, False, 4), ((1, 1), 2, 28, False, 4), ((1, 3, 1, 4), 1, 34, False, 4)]
    qs = []
    for ops, mt, K, full, bits in progs:
        qs += cubed(('own_%s_mt%d_k%d' % (''.join(str(o) for o in ops), mt, K), ops, mt, K), dict(racy=False, prefix_only=not full, expect_reach=('owner finished', 'all threads finished') if full else ()), bits, nthr_choices=min(mt, 2) + 1)
    return qs


def run(tier, seed):
    ck = PoolCheck('C07', tier, seed)
    qs = plan(tier)
    ck.bounds = {'tasks': '1..2', 'workers': '1' if tier == 'quick' else '1..2', 'owner programs': [q.desc['owner_program'] for q in qs],
                 'schedule': 'K thread choices per query ("complete_runs": K asserted sufficient for termination; otherwise the first K steps of every schedule)',
                 'outside': 'more than two tasks/workers; expiring workers; weak memory'}
    ck.assumptions = ASSUME
    ck.collect_functions([H] + [os.path.join(ck.ws.prepare_repo(), s) for s in SRCS], ['NTASK=2', 'MAXTHREADS=1', 'VF_LIST_CAP=3', 'VF_SPLIT_ENTRY=1'])
    ck.run_all(qs)
    ck.classify(qs)
    return ck.finish(qs, rule='one CBMC query per owner program over the sequentialised real ThreadPool.cpp/Thread.cpp decides over every schedule: ghost counters of instrumented tasks (entered/exited/destroyed, canary) show '
                     'at most one execution, exactly one destruction never before/during execution, exactly one execution unless stopped/cleared, no start after stop() returned, submission order with one worker', stubs=STUBS)


def replay(path):
    ck = PoolCheck('C07', 'quick', 0)
    ok, out = ck.native_replay(path)
    print(out)
    if ok:
        print('VIOLATION property=C07 replay=%s' % path)
        return 1
    return 0

"""C20: tulz::Thread runs its callable once, on a live copy, and reports completion."""
import os
from vflib.check import Check, Query
from vflib.core import VERIF
from checks.resource_common import PRIMS, RT, build_with_repo

H = os.path.join(VERIF, 'harness', 'h_thread.cpp')
KINDS = {0: 'function pointer', 1: 'small closure (8 bytes)', 2: 'large closure (48 bytes)', 3: 'Runnable*'}


class TCheck(Check):
    def build(self, q):
        return build_with_repo(self, q)


def plan(tier):
    qs = []
    for k, kn in KINDS.items():
        K = 9
        q = Query('thread_kind%d' % k, [H], ['KIND=%d' % k], stl='model', rt=RT, cbmc_defines=['VF_K=%d' % K, 'VF_NTHR=2', 'VF_PRESTART=1', 'VF_LIVENESS=1'], unwind=4,
                  unwindset=['vf_run.0:%d' % (K + 2)], timeout=900, expect_reach=['joined', 'all threads finished'],
                  ll2c_kw={'co': True, 'yield_prims': PRIMS, 'lifetime_havoc': True}, inline_all=True,
                  desc={'callable': kn, 'threads': 'starter + new thread', 'symbolic': 'the schedule (%d thread choices)' % K,
                        'stack': "objects whose lifetime ended (by-value parameters of start(), the caller's temporaries) hold arbitrary bytes"})
        q.repo_srcs = ['src/threading/Thread.cpp', 'src/threading/Runnable.cpp']
        q.native_repo_srcs = q.repo_srcs
        q.native_shim = True
        q.native_defines = ['VF_PRESTART=1']
        q.extra_cbmc = ['--sat-solver', 'cadical', '--slice-formula']
        qs.append(q)
    return qs


def run(tier, seed):
    ck = TCheck('C20', tier, seed)
    qs = plan(tier)
    ck.bounds = {'threads': '1 starter + 1 started thread', 'callable kinds': list(KINDS.values()), 'arguments': 'one lvalue int', 'schedule': 'every interleaving at synchronisation granularity (9 steps, asserted sufficient)',
                 'outside': 'several Thread objects, argument lists longer than one, weak memory'}
    ck.assumptions = ['model std::thread decay-copies the callable to the heap and invokes it on the new thread (as libstdc++ does)', 'end of lifetime of an automatic object = its bytes become arbitrary (llvm.lifetime.end -> havoc), which is how a dangling reference is observed',
                      'm_isFinished is read without synchronisation (see C15); here only its value is used']
    ck.collect_functions([H, os.path.join(ck.ws.prepare_repo(), 'src/threading/Thread.cpp')], ['KIND=1'])
    ck.run_all(qs)
    ck.classify(qs)
    return ck.finish(qs, rule='one CBMC query per callable kind over the sequentialised real Thread.h/Thread.cpp decides over every schedule: callable invoked exactly once on a live object with intact state, isFinished()/join() ordering, Runnable destroyed once',
                     stubs=['std::thread (scheduler model)', 'stack reuse model (lifetime.end havoc)'])


def replay(path):
    ck = TCheck('C20', 'quick', 0)
    ok, out = ck.native_replay(path)
    print(out)
    if ok:
        print('VIOLATION property=C20 replay=%s' % path)
        return 1
    return 0

"""C01: a writer never shares the lock (safety under every schedule, spurious wake-ups allowed)."""
from checks.resource_common import *


def plan(tier):
    qs = []
    sets = [(2, 1, 14, None), (3, 1, 22, None)] if tier == 'quick' else [(2, 1, 14, None), (2, 2, 28, None), (3, 1, 22, None), ]
    for n, pairs, K, _ in sets:
        for progs in multisets(n, pairs):
            if all(p.count('W') == 0 for p in progs):
                continue   # reader-only programs cannot violate exclusion (covered by C12)
            for g in ((None, 'g') if n == 2 else (None,)):
                guards = [g * len(p) for p in progs] if g else None
                name = 'safe_%s%s' % ('_'.join(progs), '_guards' if g else '')
                # three-thread programs: the first schedule choice is a cube (three queries in parallel instead of one long one)
                for t0 in (None,):   # (splitting the three-thread programs by their first schedule choice was tried: 2.5x the total solver time, no gain in wall time)
                    qs.append(ResQuery(name + ('' if t0 is None else '_first%d' % t0), progs, guards=guards, cbmc_defs=['VF_SPURIOUS=2'], K=K, timeout=1500 if tier == 'quick' else 3000, prefix=None if t0 is None else [t0],
                                       desc={'threads': list(progs), 'api': 'ReadLock/WriteLock guards' if g else 'raw lock*/unlock* calls', 'first_scheduled_thread': t0,
                                             'symbolic': 'the schedule (%d thread choices) and up to 2 spurious wake-ups' % K}))
    # the slow-waker scenario of the property text: W; two readers queue; a second write request queues; one reader is slow to wake up
    if tier == 'quick':
        K = 22   # quick: every schedule PREFIX of 22 steps (no spurious wake-ups needed for this scenario); completion within the bound: thorough tier
        for t0 in range(3):
            qs.append(ResQuery('safe_slow_waker_WW_R_R_first%d' % t0, ('WW', 'R', 'R'), K=K, prefix=[t0], timeout=2400, expect_reach=[],
                               desc={'threads': ['WW', 'R', 'R'], 'api': 'raw', 'first_scheduled_thread': t0, 'symbolic': 'the remaining %d schedule choices' % (K - 1),
                                     'note': 'four lock/unlock pairs: admitted reader slow to wake while its batch sibling has finished (prefix exploration)'}))
    else:
        K = 34
        for t0 in range(3):
            qs.append(ResQuery('safe_slow_waker_WW_R_R_first%d' % t0, ('WW', 'R', 'R'), K=K, prefix=[t0], timeout=3600,
                               desc={'threads': ['WW', 'R', 'R'], 'api': 'raw', 'first_scheduled_thread': t0, 'symbolic': 'the remaining %d schedule choices' % (K - 1),
                                     'note': 'four lock/unlock pairs: admitted reader slow to wake while its batch sibling has finished'}))
    return qs


def run(tier, seed):
    ck = ResCheck('C01', tier, seed)
    qs = plan(tier)
    ck.bounds = {'threads': '2..3 x 1 pair, plus (WW,R,R)' if tier == 'quick' else '2 x <=2 pairs, 3 x 1 pair, plus (WW,R,R)', 'schedule length': 'K steps per query (prefix-closed: every violation within K steps is found)',
                 'spurious wake-ups': '<= 2 per run', 'outside': 'more threads / longer programs / longer schedules; weak memory'}
    ck.assumptions = COMMON_ASSUME + ['oracle: counters bumped right after lock*() returns and right before unlock*() is called, plus tulz\'s own assert(m_activeOp == opType)']
    ck.collect_functions([H, os.path.join(ck.ws.prepare_repo(), 'src/threading/rwp/Resource.cpp')], ['NW=2', 'P0=5', 'P1=1'])
    ck.run_all(qs)
    ck.classify(qs)
    return ck.finish(qs, rule='cube = multiset of thread programs (kinds R/W, raw calls or guard classes); one CBMC query per cube over the sequentialised real Resource.cpp decides over every schedule of K steps and '
                     'spurious wake-up placement that writers==0 || (writers==1 && readers==0) at every acquisition', stubs=['std::deque (ring model)', 'std::mutex', 'std::condition_variable'])


def replay(path):
    ck = ResCheck('C01', 'quick', 0)
    ok, out = ck.native_replay(path)
    print(out)
    if ok:
        print('VIOLATION property=C01 replay=%s' % path)
        return 1
    return 0

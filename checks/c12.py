"""C12: readers share — (a) no reader parks in a writer-free history, (b) a batch of readers queued behind a writer is admitted together."""
from checks.resource_common import *


def plan(tier):
    qs = []
    for n, pairs, K in ([(2, 2, 24), (3, 1, 18)] if tier == 'quick' else [(2, 2, 24), (3, 1, 18), (3, 2, 34)]):
        progs = tuple(['R' * pairs] * n)
        qs.append(ResQuery('nopark_%dx%s' % (n, 'R' * pairs), progs, harness_defs=['C12_NOPARK=1'], cbmc_defs=['VF_LIVENESS=1'], K=K, timeout=1500,
                           desc={'threads': list(progs), 'claim': 'no reader ever parks (no condition-variable wait) in a writer-free history', 'symbolic': 'the schedule (%d thread choices)' % K}))
    # (c) mixed programs: whenever a reader parks, some write request is active or waiting (ghost: a writer between issuing lockWrite and the return of unlockWrite)
    for progs, K in ([(('W', 'R', 'R'), 22)] if tier == 'quick' else [(('W', 'R', 'R'), 22), (('W', 'RR'), 26), (('W', 'W', 'R'), 22), (('WR', 'R'), 26)]):
        for t0 in range(len(progs)):
            qs.append(ResQuery('needless_park_%s_first%d' % ('_'.join(progs), t0), progs, harness_defs=['ORACLE_C12=1'], cbmc_defs=['VF_LIVENESS=1'], K=K, prefix=[t0], timeout=1500,
                               desc={'threads': list(progs), 'first_scheduled_thread': t0, 'claim': 'a reader parks only while a write request is active or waiting', 'symbolic': 'the remaining %d schedule choices' % (K - 1)}))
    for b, K in ([(2, 26)] if tier == 'quick' else [(2, 26), (3, 34)]):
        qs.append(ResQuery('batch_W_then_%dR' % b, tuple(['W'] + ['R'] * b), harness_defs=['C12_BARRIER=1', 'BARRIER=%d' % b], cbmc_defs=['VF_LIVENESS=1'], K=K, timeout=2400,
                           desc={'threads': ['W (holds until %d readers are parked)' % b] + ['R (rendezvous with the other readers inside the section)'] * b,
                                 'claim': 'readers queued consecutively behind a writer are admitted together: the rendezvous never deadlocks', 'symbolic': 'the schedule (%d thread choices)' % K}))
    return qs


def run(tier, seed):
    ck = ResCheck('C12', tier, seed)
    qs = plan(tier)
    ck.bounds = {'readers': '2..3' if tier == 'quick' else '2..4', 'schedule length': 'K steps per query, asserted sufficient', 'outside': 'more readers; weak memory'}
    ck.assumptions = COMMON_ASSUME + ['spurious wake-ups disabled (deadlock detector)']
    ck.collect_functions([H, os.path.join(ck.ws.prepare_repo(), 'src/threading/rwp/Resource.cpp')], ['NW=2', 'P0=1', 'P1=1'])
    ck.run_all(qs)
    ck.classify(qs)
    return ck.finish(qs, rule='one CBMC query per scenario decides over every schedule of K steps: (a) reader-only programs never reach a condition-variable wait, (b) W + k readers with a rendezvous inside the read section never deadlock',
                     stubs=['std::deque (ring model)', 'std::mutex', 'std::condition_variable'])


def replay(path):
    ck = ResCheck('C12', 'quick', 0)
    ok, out = ck.native_replay(path)
    print(out)
    if ok:
        print('VIOLATION property=C12 replay=%s' % path)
        return 1
    return 0

"""C17: File round-trips bytes exactly — real File.cpp/Path.cpp/Array.h over a POSIX stdio model; cube x SAT query each."""
import os, itertools
from vflib.check import Check
from vflib.core import VERIF
from checks.skel import Unit, CubeQuery, run_cubes

H = os.path.join(VERIF, 'harness', 'h_file.cpp')
WM = ['Write', 'WriteText', 'Append', 'AppendText']
OV = ['write(ptr,n)', 'write(Array<byte>)', 'write(std::string)']
RP = ['read()', 'readStr()', 'read(buffer,1,n)']


def plan(tier):
    unit = Unit('file', [H], ['VF_STR_CAP=40'], repo_srcs=['src/File.cpp', 'src/Path.cpp', 'src/Exception.cpp'], extra_rt=['rt_fs.c'])
    maxb = 3 if tier == 'quick' else 6
    qs = []

    def add(cube, what, reach):
        name = 'f_' + '_'.join(str(c) for c in cube).replace('-', 'm')
        qs.append(CubeQuery(name, unit, cube, unwind=44, timeout=600, expect_reach=[reach],
                            desc=dict(what, symbolic='every written byte and every pre-existing byte')))
    for wm in range(4):
        for total in range(0, maxb + 1):
            splits = sorted(set([0, total // 2, total]))
            for split in splits:
                for ov in range(3):
                    if tier == 'quick' and ov != 0 and split not in (0,):
                        continue
                    for presz in ((-1, 0, 2) if tier == 'quick' else (-1, 0, 1, 2)):
                        for rp in range(3):
                            for rm in (0, 1):
                                if tier == 'quick' and (rp + rm + ov + wm + total) % 2:   # quick: half of the read-path/mode combinations (the other half runs in the thorough tier)
                                    continue
                                add([wm, total, split, ov, presz, rp, rm, 0], {'scenario': 'round trip', 'write_mode': WM[wm], 'bytes': total, 'first_write_call': split, 'overload': OV[ov],
                                                                             'pre_existing_size': presz if presz >= 0 else 'file absent', 'read_path': RP[rp], 'read_mode': 'ReadText' if rm else 'Read'}, 'end')
    for rm in (0, 1):
        add([0, 0, 0, 0, -1, 0, rm, 1], {'scenario': 'missing file opened for reading', 'read_mode': 'ReadText' if rm else 'Read'}, 'documented exception thrown')
    for wm in (-1, 0, 1, 2, 3):
        add([wm, 0, 0, 0, -1, 0, 0, 2], {'scenario': 'directory opened', 'mode': WM[wm] if wm >= 0 else 'Read'}, 'documented exception thrown')
    for total in range(0, maxb + 1):
        for rm in (0, 1):
            add([0, total, total, 0, -1, 0, rm, 3], {'scenario': 'seek/tell/size sequence then read()', 'bytes': total, 'read_mode': 'ReadText' if rm else 'Read'}, 'end')
    return [unit], qs


def run(tier, seed):
    ck = Check('C17', tier, seed)
    units, qs = plan(tier)
    ck.bounds = {'content length': '0..%d bytes (+ up to 2 pre-existing bytes)' % (3 if tier == 'quick' else 6), 'write calls': '<= 2 (every split point 0, n/2, n)', 'open modes': WM + ['Read', 'ReadText'],
                 'outside': 'the kernel and glibc themselves (the model IS the POSIX contract, text == binary); contents longer than the bound (so "multi-megabyte" is not claimed); Windows CRLF translation'}
    ck.assumptions = ['stdio/dirent model rt/rt_fs.c: fopen(dir,"r") succeeds and reads fail, fopen(dir,"w"/"a") fails, O_APPEND semantics for "a"', 'model std::string (capacity 15) and model iostream (no-op)',
                      'exceptions lowered to a hook: kind/code checked (tulz::Exception with Path::NotFound / Path::NotFile), then the path ends', 'allocation never fails']
    ck.collect_functions([H] + [os.path.join(ck.ws.prepare_repo(), s) for s in ('src/File.cpp', 'src/Path.cpp')])
    run_cubes(ck, units, qs)
    ck.classify(qs)
    return ck.finish(qs, rule='cube = (write mode, length, split, overload, pre-existing size, read path, read mode | error scenario | seek sequence); one CBMC query per cube decides over all byte values (incl. 0x00, 0xFF, CR, LF) '
                     'that the bytes read back are the bytes written (after the pre-existing ones for append), sizes/positions are right and the documented exceptions are thrown',
                     stubs=['POSIX stdio/dirent model (rt_fs.c)', 'std::string', 'std::iostream'])


def replay(path):
    ck = Check('C17', 'quick', 0)
    ok, out = ck.native_replay(path)
    print(out)
    if ok:
        print('VIOLATION property=C17 replay=%s' % path)
        return 1
    return 0

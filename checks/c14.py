"""C14: Array value semantics — constructor harnesses + one step from an arbitrary state, for int, unsigned char and a lifetime-tracking class type."""
import os
from vflib.check import Check, Query
from vflib.core import VERIF

H = os.path.join(VERIF, 'harness', 'h_arr.cpp')
OPS = {0: 'ctor(ptr,len,copy)', 1: 'ctor(ptr,len,adopt)', 2: 'ctor(init-list)', 3: 'ctor(size)', 4: 'ctor(size,value)', 5: 'ctor()', 6: 'copy-construct', 7: 'move-construct',
       8: 'copy-assign', 9: 'move-assign', 10: 'self-assign', 11: 'swap', 12: 'resize(n)', 13: 'resize(n,value)', 14: 'element write'}
TWO = (8, 9, 11, 12, 13)
TYPES = {0: 'int', 1: 'unsigned char', 2: 'vf::Tracked (class type)'}


def plan(tier):
    maxlen = 3 if tier == 'quick' else 5
    qs = []
    for ty in TYPES:
        for op, nm in OPS.items():
            lens = [0] if op == 5 else range(0, maxlen + 1)
            for ln in lens:
                for nl in (range(0, maxlen + 1) if op in TWO else (0,)):
                    name = 'arr_t%d_op%d_len%d_new%d' % (ty, op, ln, nl)
                    qs.append(Query(name, [H], ['TY=%d' % ty, 'OP=%d' % op, 'LEN=%d' % ln, 'NEWLEN=%d' % nl], stl='real', unwind=max(ln, nl) + 3, timeout=600,
                                    desc={'element_type': TYPES[ty], 'operation': nm, 'length': ln, 'other_length': nl if op in TWO else None, 'symbolic': 'all element values, fill value, written index'}))
    return qs, maxlen


def run(tier, seed):
    ck = Check('C14', tier, seed)
    qs, maxlen = plan(tier)
    ck.bounds = {'length': '0..%d' % maxlen, 'new length / second array length': '0..%d' % maxlen, 'element types': list(TYPES.values()),
                 'history length': 'unbounded within the length bound: Array has no hidden layout, so "block of n constructed elements" is every reachable state of length n',
                 'outside': 'lengths > %d; allocation failure' % maxlen}
    ck.assumptions = ['allocation never fails', 'realloc(p, 0) returns a zero-size block (model) — glibc returns NULL; both are freed correctly by ~Array',
                      'arithmetic Array(size) leaves elements uninitialised: only size and writability are checked there']
    ck.collect_functions([H], ['TY=2', 'OP=12', 'LEN=2', 'NEWLEN=3'], stl='real')
    ck.run_all(qs)
    ck.classify(qs)
    return ck.finish(qs, rule='one CBMC query per (element type, operation/constructor, length, [second length]); the solver decides over all element values; non-trivial = discharged with REACH witnesses reachable')


def replay(path):
    ck = Check('C14', 'quick', 0)
    ok, out = ck.native_replay(path)
    print(out)
    if ok:
        print('VIOLATION property=C14 replay=%s' % path)
        return 1
    return 0

"""C06: SubjectRouter reaches exactly the observers whose key matches the pattern — cubes x SAT query each."""
from checks.router_common import *


def plan(tier):
    units = {}
    qs = []

    def U(sig, conc=False):
        k = (sig, conc)
        if k not in units:
            units[k] = unit(sig, 6, 2, conc)
        return units[k]
    K = keys(2)
    P = patterns(2)
    subsets = [(k,) for k in K] + [t for t in itertools.product(K, repeat=2) if t[0] <= t[1]]
    for sig in SIGS:
        for conc in (False, True):
            for subs in subsets:
                for pc, pt in P:
                    # quick: every (subscriptions, pattern) pair for notify<int> on SubjectRouter; other signatures / the concurrent router on the patterns that reach regex levels
                    regexy = any(x >= 3 for x in pt)
                    if tier == 'quick':
                        if (sig != 1 or conc) and not (regexy and len(subs) == 2 and len(pt) == 2 and subs[0] != subs[1]):
                            continue
                        if (sig != 1 or conc) and (pc + sum(subs) + sig) % 6:
                            continue
                        if sig == 1 and not conc and len(subs) == 2 and len(pt) == 1:
                            continue
                    kills = [(0, 0)] if (tier == 'quick' or len(subs) == 1 or sig != 1) else [(0, 0), (1, 0), (1, 1)] + ([] if conc else [(2, 0)])
                    for kill, kj in kills:
                        cube = [len(subs)] + list(subs) + [0] * (3 - len(subs)) + [kill, kj, 0, pc, 0, 0]
                        name = 's%d%s_k%s_p%d_x%d%d' % (sig, 'c' if conc else '', '.'.join(str(s) for s in subs), pc, kill, kj)
                        qs.append(CubeQuery(name, U(sig, conc), cube, unwind=12, timeout=300, expect_reach=['end'],
                                            desc={'router': 'ConcurrentSubjectRouter (one thread)' if conc else 'SubjectRouter', 'signature': SIGS[sig], 'subscriptions': [keyname(s) for s in subs],
                                                  'pattern': patname(pt), 'before_notify': {0: 'nothing', 1: 'unsubscribe #%d' % kj, 2: 'invalidate #%d + notify' % kj}[kill],
                                                  'symbolic': 'regex truth table (what r1, r2 match on every level name), argument value'}))
    return list(units.values()), qs


def run(tier, seed):
    ck = Check('C06', tier, seed)
    units, qs = plan(tier)
    ck.bounds = {'level names': '{a, b}', 'key depth': '<= 2', 'subscriptions': '<= 2', 'patterns': 'every pattern of depth <= 2 over {a, b, regex r1, regex r2, .*}',
                 'signatures': list(SIGS.values()), 'outside': 'deeper keys, more names/subscriptions; real std::regex syntax (a regex is an arbitrary predicate on level names)'}
    ck.assumptions = ['std::regex = index into a symbolic truth table fixed for the run; ".*" = constant true', 'model STL: map (sorted heap nodes), vector/variant/string (inline storage), see C05 for the Subject stack',
                      'notify is called with explicit template arguments matching the subscribed signature (documented requirement)', 'ConcurrentSubjectRouter: used from one thread; a blocking wait would be reported']
    ck.collect_functions([H] + [os.path.join(ck.ws.prepare_repo(), s) for s in ROUTER_SRCS], ['SIG=1', 'MODE=6', 'DEPTH=2', 'VF_STR_CAP=3'])
    run_cubes(ck, units, qs)
    ck.classify(qs)
    return ck.finish(qs, rule='cube = (router class, signature, subscription keys, pattern structure, optional kill); one CBMC query per cube decides over every regex truth table and argument value that exactly the matching '
                     'observers are invoked once with the passed value and that the return value is the number of matched keys holding a subject',
                     stubs=['std::map', 'std::vector', 'std::variant', 'std::string', 'std::regex (truth table)', 'std::forward_list', 'std::set', 'std::function', 'std::unique_ptr'])


def replay(path):
    ck = Check('C06', 'quick', 0)
    ok, out = ck.native_replay(path)
    print(out)
    if ok:
        print('VIOLATION property=C06 replay=%s' % path)
        return 1
    return 0

"""C03: FIFO fairness — a request already parked is never overtaken by a later request (except reads of one batch)."""
from checks.resource_common import *


def plan(tier):
    qs = []
    sets = [(2, 1, 16), (3, 1, 22)] if tier == 'quick' else [(2, 1, 16), (2, 2, 30), (3, 1, 22)]
    for n, pairs, K in sets:
        for progs in multisets(n, pairs):
            name = 'fifo_%s' % '_'.join(progs)
            qs.append(ResQuery(name, progs, harness_defs=['ORACLE_C03=1'], K=K, timeout=1500 if tier == 'quick' else 3000,
                               desc={'threads': list(progs), 'symbolic': 'the schedule (%d thread choices)' % K, 'events': 'issued (before the call), parked (first cv_wait of the call), granted (call returned)'}))
    if tier != 'quick':
        # four parties: a reader holds, a writer parks, a reader parks behind it, another reader arrives
        qs.append(ResQuery('fifo_R_W_R_R', ('R', 'W', 'R', 'R'), harness_defs=['ORACLE_C03=1'], K=28, timeout=5400,
                           desc={'threads': ['R', 'W', 'R', 'R'], 'symbolic': 'the schedule (28 thread choices)', 'events': 'issued / parked / granted'}))
    return qs


def run(tier, seed):
    ck = ResCheck('C03', tier, seed)
    qs = plan(tier)
    ck.bounds = {'threads': '2..3 x 1 pair' if tier == 'quick' else '2 x <=2 pairs, 3 x 1 pair', 'schedule length': 'K steps per query (prefix-closed)', 'outside': 'more threads / longer programs; weak memory'}
    ck.assumptions = COMMON_ASSUME + ['"already waiting" = observed parked inside lock*() (first condition-variable wait of that call) before the later call was issued; ties between truly concurrent calls are not constrained',
                                      'batch exception: two reads with no write request parked between them may be granted together, in any order']
    ck.collect_functions([H, os.path.join(ck.ws.prepare_repo(), 'src/threading/rwp/Resource.cpp')], ['NW=2', 'P0=5', 'P1=1', 'ORACLE_C03=1'])
    ck.run_all(qs)
    ck.classify(qs)
    return ck.finish(qs, rule='cube = multiset of thread programs; one CBMC query per cube decides over every schedule of K steps that at each grant no earlier-parked request is still ungranted (batch exception for reads)',
                     stubs=['std::deque (ring model)', 'std::mutex', 'std::condition_variable'])


def replay(path):
    ck = ResCheck('C03', 'quick', 0)
    ok, out = ck.native_replay(path)
    print(out)
    if ok:
        print('VIOLATION property=C03 replay=%s' % path)
        return 1
    return 0

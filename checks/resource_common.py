"""Shared plan for the rwp::Resource properties (C01, C02, C03, C12): sequentialised real Resource.cpp under a symbolic schedule."""
import os, itertools
from vflib.check import Check, Query
from vflib.core import VERIF

H = os.path.join(VERIF, 'harness', 'h_res.cpp')
PRIMS = ['__vf_mutex_lock', '__vf_cv_wait', '__vf_cv_notify_all', '__vf_cv_notify_one', '__vf_thread_join', '__vf_yield', '__vf_wait_until', '__vf_atomic_op']
RT = ('rt_cbmc.c', 'rt_model.c', 'rt_sched.c', 'rt_hb_off.c')


def prog(kinds, guards=None):
    """kinds: string like 'W', 'RW'; guards: same-length string of 'g'/'-'"""
    guards = guards or '-' * len(kinds)
    p = len(kinds)
    for j, k in enumerate(kinds):
        if k == 'W':
            p |= 1 << (2 + j)
        if guards[j] == 'g':
            p |= 1 << (5 + j)
    return p


class ResQuery(Query):
    def __init__(self, name, programs, guards=None, harness_defs=(), cbmc_defs=(), K=20, checker=False, timeout=900, desc=None, expect_reach=('all threads finished',), prefix=None):
        nw = len(programs)
        defs = ['NW=%d' % nw] + ['P%d=%d' % (i, prog(p, guards[i] if guards else None)) for i, p in enumerate(programs)] + list(harness_defs)
        nthr = nw + (1 if checker else 0)
        cdefs = ['VF_K=%d' % K, 'VF_NTHR=%d' % nthr, 'VF_PRESTART=%d' % nthr] + list(cbmc_defs)
        if prefix:
            cdefs.append('VF_PREFIX=' + ','.join(str(x) for x in prefix))
        super().__init__(name, [H], defs, stl='model', rt=RT, cbmc_defines=cdefs, unwind=max(nthr + 2, 4), unwindset=['vf_run.0:%d' % (K + 2)], timeout=timeout, mem_gb=14,
                         desc=desc, expect_reach=list(expect_reach), ll2c_kw={'co': True, 'yield_prims': PRIMS}, inline_all=True)
        self.repo_srcs = ['src/threading/rwp/Resource.cpp']
        self.native_repo_srcs = self.repo_srcs
        self.native_shim = True
        self.native_defines = ['VF_PRESTART=%d' % nthr]
        self.mem_weight = 4 if nthr >= 3 else 2
        self.cost = K * (sum(len(p_) for p_ in programs) + (3 if checker else 0))   # scheduling estimate: long queries start first
        self.extra_cbmc = ['--sat-solver', 'cadical', '--slice-formula']   # measured: 275 s vs 329 s (MiniSat, no slicing) on live3_R_R_W


def build_with_repo(ck, q):
    """Query.build variant: adds the tulz sources from the scratch copy of the working tree"""
    from vflib import core
    import re
    repo = ck.ws.prepare_repo()
    tag = re.sub(r'[^A-Za-z0-9_]', '_', q.name)
    srcs = q.srcs + [os.path.join(repo, s) for s in q.repo_srcs]
    q.ll = core.compile_ir(ck.ws, srcs, ck.ws.path(tag + '.ll'), defines=q.defines, stl=q.stl, inline_all=q.inline_all)
    q.cfile = core.translate(q.ll, ck.ws.path(tag + '.c'), **q.ll2c_kw)
    return q


class ResCheck(Check):
    def build(self, q):
        return build_with_repo(self, q)


def multisets(n, pairs=1):
    """thread programs with `pairs` lock/unlock pairs each, up to thread symmetry"""
    alphabet = [''.join(p) for p in itertools.product('RW', repeat=pairs)]
    return list(itertools.combinations_with_replacement(alphabet, n))


COMMON_ASSUME = ['sequential consistency', 'context switches only at synchronisation operations (mutex lock, condition-variable wait/notify, harness yield inside the critical section): complete for data-race-free code; '
                 'race freedom of Resource is the subject of C15', 'model std::deque (ring, capacity 4, BOUND-asserted), std::mutex/condition_variable = scheduler primitives',
                 'thread programs are enumerated (cube); the schedule (array of thread choices) is the solver variable']

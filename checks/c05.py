"""C05: Subject delivers to exactly the live, unmuted observers, in order — skeleton cubes x SAT query each."""
import os, itertools
from vflib.check import Check
from vflib.core import VERIF
from checks.skel import Unit, CubeQuery, run_cubes

H = os.path.join(VERIF, 'harness', 'h_subj.cpp')
NOBS = 4
NONE, LIVE, INVAL, GONE = range(4)
OPN = {0: 'subscribe', 1: 'unsubscribe(handle)', 2: 'unsubscribe(subject)', 3: 'mute', 4: 'unmute', 5: 'invalidate', 6: 'unsubscribe stale handle', 7: 'unsubscribe foreign handle',
       8: 'unsubscribe default handle', 9: 'notify round'}
SIGS = {0: 'Subject<>', 1: 'Subject<int>', 2: 'Subject<const S&>', 3: 'Subject<int,int>', 4: 'Subject<Sv> (class type by value)'}


def step(state, op, k):
    """state = (tuple st[k], n); returns new state or None if the precondition fails; throwing ops return 'THROW'"""
    st, n = list(state[0]), state[1]
    if op == 0:
        if k != n or n >= NOBS:
            return None
        st[k] = LIVE
        return (tuple(st), n + 1)
    if op in (1, 2):
        if st[k] not in (LIVE, INVAL):
            return None
        st[k] = GONE
        return (tuple(st), n)
    if op in (3, 4, 5):
        if st[k] not in (LIVE, INVAL):
            return None
        if op == 5:
            st[k] = INVAL
        return (tuple(st), n)
    if op == 6:
        return 'THROW' if st[k] == GONE else None
    if op in (7, 8):
        return 'THROW' if k == 0 else None
    if op == 9:
        if k != 0:
            return None
        return (tuple(GONE if x == INVAL else x for x in st), n)
    return None


def skeletons(maxlen, npres):
    out = []
    moves = [(op, k) for op in OPN for k in range(NOBS)]
    for npre in npres:
        s0 = (tuple([LIVE] * npre + [NONE] * (NOBS - npre)), npre)
        frontier = [((), s0)]
        for _ in range(maxlen):
            nxt = []
            for seq, stt in frontier:
                for (op, k) in moves:
                    r = step(stt, op, k)
                    if r is None:
                        continue
                    if r == 'THROW':
                        out.append((npre, seq + ((op, k),), True))
                    else:
                        out.append((npre, seq + ((op, k),), False))
                        nxt.append((seq + ((op, k),), r))
            frontier = nxt
    return out


def plan(tier):
    units = {sig: Unit('subj_sig%d' % sig, [H], ['SIG=%d' % sig]) for sig in SIGS}
    qs = []
    if tier == 'quick':
        plans = [(1, 2, (1, 2, 3)), (0, 1, (2,)), (2, 1, (2,)), (3, 1, (2,)), (4, 1, (2, 3))]
    else:
        plans = [(1, 3, (0, 1, 2, 3)), (0, 2, (1, 2, 3)), (2, 2, (1, 2, 3)), (3, 2, (1, 2, 3)), (4, 2, (1, 2, 3))]
    extra = []
    if tier == 'quick':
        # targeted length-3 skeletons: (kill something, anything, subscribe again) — id/slot reuse after a removal
        for npre, seq, throws in skeletons(3, (2,)):
            if len(seq) == 3 and seq[0][0] in (1, 2, 5) and seq[2][0] == 0 and not throws:
                extra.append((1, npre, seq, throws))
    for sig, maxlen, npres in plans:
        extra += [(sig, npre, seq, throws) for npre, seq, throws in skeletons(maxlen, npres)]
    for sig, npre, seq, throws in extra:
        if True:
            for round0 in ((0, 1) if len(seq) == 1 and tier != 'quick' else (0,)):
                cube = []
                for i in range(3):
                    cube += list(seq[i]) if i < len(seq) else [-1, 0]
                cube += [npre, round0]
                name = 'sig%d_n%d_r%d_%s' % (sig, npre, round0, '_'.join('%d.%d' % x for x in seq))
                qs.append(CubeQuery(name, units[sig], cube, unwind=NOBS + 2, timeout=300,
                                    expect_reach=['rejected with an exception, state unchanged'] if throws else ['end'],
                                    desc={'signature': SIGS[sig], 'initial_observers': npre, 'skeleton': [OPN[o] + '(%d)' % k for o, k in seq], 'then': 'two notify rounds',
                                          'symbolic': 'initial mute flags, argument values of every notify, captured payloads, handle-moved bits'}))
    return list(units.values()), qs


def run(tier, seed):
    ck = Check('C05', tier, seed)
    units, qs = plan(tier)
    ck.bounds = {'observers': '<= %d' % NOBS, 'skeleton length': '<= 2 (Subject<int>), 1 (other signatures)' if tier == 'quick' else '<= 3 (Subject<int>), 2 (other signatures)',
                 'signatures': list(SIGS.values()), 'notify rounds after the skeleton': 2,
                 'outside': 'longer operation skeletons, more than %d observers; inside each cube only data (flags, values) is symbolic — the operation kinds/targets are enumerated, not solved for' % NOBS}
    ck.assumptions = ['model STL: forward_list (heap nodes), set (array, cap 6), function (heap callable), unique_ptr', 'exceptions are lowered to __vf_throw: kind checked, state-unchanged check runs, path ends (no unwinding)',
                      'allocation never fails']
    ck.collect_functions([H], ['SIG=1'])
    run_cubes(ck, units, qs)
    ck.classify(qs)
    return ck.finish(qs, rule='cube = (signature, number of initial observers, sequence of operation kinds with targets); one CBMC query per cube decides over all mute flags, argument values, payloads, '
                     'handle-moved bits; skeletons violating a precondition are not generated (python model of the handle states); non-trivial = discharged with its REACH witness reachable',
                     stubs=['std::forward_list', 'std::set', 'std::function', 'std::unique_ptr', 'std::invalid_argument'])


def replay(path):
    ck = Check('C05', 'quick', 0)
    ok, out = ck.native_replay(path)
    print(out)
    if ok:
        print('VIOLATION property=C05 replay=%s' % path)
        return 1
    return 0

"""C11: ConcurrentSubjectRouter operations are atomic w.r.t. each other — compositional: lock discipline (here) + writer exclusion (C01)."""
import os, itertools
from vflib.check import Check
from vflib.core import VERIF
from checks.skel import Unit, CubeQuery, run_cubes
from checks.router_common import ROUTER_SRCS

H = os.path.join(VERIF, 'harness', 'h_conc.cpp')
OPS = {0: 'notify', 1: 'shrink', 2: 'exists', 3: 'depth', 4: 'USubscription::unsubscribe', 5: 'unsubscribe + shrink'}
KEYS = {1: '/a', 2: '/b', 4: '/a/a', 5: '/a/b'}
PATS = {1: '/a', 5: '/a/b', 6: '/.*', 7: '/a/.*', 8: '/.*/.*', 9: '/r1'}


def plan(tier):
    unit = Unit('conc', [H], ['VF_STR_CAP=3'], repo_srcs=ROUTER_SRCS + ['src/threading/rwp/Resource.cpp'], extra_rt=['rt_sync_seq.c', 'rt_lockdisc.c'], cbmc_defines=['VF_NEW_HOOK=1'],
                ll2c_kw={'acc_prefixes': ('',)})
    qs = []
    subsets = [(k,) for k in KEYS] + [t for t in itertools.product(KEYS, repeat=2) if t[0] <= t[1]]
    for subs in subsets:
        for op in OPS:
            pats = [0] if op in (3, 4) else [x for x in PATS if not (x == 9 and op in (1, 5))]   # a symbolic regex in a shrink pattern would make the heap shape symbolic
            for p in pats:
                if tier == 'quick' and len(subs) == 2 and (p + op + sum(subs)) % 3:
                    continue
                cube = [len(subs)] + list(subs) + [0] * (2 - len(subs)) + [op, p or 1]
                name = 'k%s_op%d_p%d' % ('.'.join(str(s) for s in subs), op, p)
                qs.append(CubeQuery(name, unit, cube, unwind=12, unwindset=['__vf_acc.0:26', '__vf_ld_untrack.0:26'], timeout=300, expect_reach=['end', OPS[op] if op != 4 else 'unsubscribe', 'subscribe'],
                                    desc={'subscriptions': [KEYS[s] for s in subs], 'operation': OPS[op], 'pattern': PATS.get(p), 'symbolic': 'regex truth table',
                                          'monitor': 'every load/store of router code on router memory (the SubjectRouter object and every heap block it allocates) vs. the mode in which the Resource is held'}))
    return [unit], qs


class C11Check(Check):
    def confirm(self, q, path):
        """native confirmation: the failing operation against a mixed workload in a second real thread, under ThreadSanitizer"""
        import subprocess, json
        from vflib import core
        rp = json.load(open(path))
        exe = self.ws.path('tsan_' + os.path.basename(path).replace('.json', ''))
        cube = [d for d in rp['defines'] if d.startswith('CUBE=')][0]
        srcs = [os.path.join(VERIF, 'harness', 'h_conc_tsan.cpp'), os.path.join(VERIF, 'rt', 'cube_native.c')] + [os.path.join(core.REPO, s) for s in ROUTER_SRCS + ['src/threading/rwp/Resource.cpp']]
        r = subprocess.run(['g++', '-std=c++20', '-g', '-O1', '-fsanitize=thread', '-I', os.path.join(core.REPO, 'include'), '-D' + cube, '-x', 'c++'] + srcs + ['-o', exe, '-lpthread'], capture_output=True, text=True)
        if r.returncode != 0:
            raise core.BrokenCheck('TSan confirmation build failed:\n' + r.stderr[-2000:])
        try:
            r = subprocess.run([exe], capture_output=True, text=True, timeout=300, env=dict(os.environ, TSAN_OPTIONS='exitcode=66 halt_on_error=1'))
        except subprocess.TimeoutExpired:
            return False, 'TSan confirmation timed out'
        out = r.stderr[-3000:]
        return r.returncode != 0, 'exit=%d (ThreadSanitizer on the real build)\n%s' % (r.returncode, out)


def run(tier, seed):
    ck = C11Check('C11', tier, seed)
    units, qs = plan(tier)
    ck.bounds = {'subscriptions': '<= 2 keys of depth <= 2', 'operations': list(OPS.values()), 'threads': 'ONE thread executes the operation (lock discipline is a sequential property); the concurrent conclusion is compositional',
                 'outside': 'callbacks that call back into the router (excluded by the property); mute/unmute through a handle (not listed by the property); a direct multi-thread exploration of router + lock (beyond the engine budget: see DESIGN.md)'}
    ck.assumptions = ['premise 2 = C01 (a writer never shares the Resource) and C02/C03 (no lost wake-up, FIFO) are checked on the same Resource.cpp by their own checks',
                      'from lock discipline + C01: conflicting accesses are ordered by the Resource => operations are serialisable; with C05/C06 on the sequential router: a notify reaches exactly the observers subscribed at one instant, '
                      'and nothing is delivered after unsubscribe() returned', 'router memory = the SubjectRouter object and every heap block allocated while an operation runs, except the caller-owned handle and its invoker']
    ck.collect_functions([H] + [os.path.join(ck.ws.prepare_repo(), s) for s in ROUTER_SRCS], ['VF_STR_CAP=3'])
    run_cubes(ck, units, qs)
    ck.classify(qs)
    return ck.finish(qs, rule='cube = (subscription keys, operation, pattern structure); one CBMC query per cube checks at EVERY memory access of the operation (instrumented by the translator) that router memory is read only with the '
                     'Resource held and written only with it held in write mode; the mode is computed by the real Resource.cpp', stubs=['model STL (see C06)', 'single-thread synchronisation primitives (rt_sync_seq.c)'])


def replay(path):
    ck = C11Check('C11', 'quick', 0)
    ok, out = ck.confirm(None, path)
    print(out)
    if ok:
        print('VIOLATION property=C11 replay=%s' % path)
        return 1
    return 0

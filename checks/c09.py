"""C09: RingBuffer element lifetimes — same inductive step as C04, instantiated with a lifetime-tracking element type."""
import os
from vflib.check import Check, Query
from vflib.core import VERIF

H = os.path.join(VERIF, 'harness', 'h_rb_tr.cpp')
OPS = {0: 'push_back', 1: 'push_front', 2: 'emplace_back', 3: 'emplace_front', 4: 'pop_back', 5: 'pop_front', 6: 'resize', 7: 'copy-construct',
       8: 'copy-assign', 9: 'move-construct', 10: 'move-assign', 12: 'self-assign'}


def plan(tier):
    maxcap = 3 if tier == 'quick' else 5
    qs = []
    for ow in (False, True):
        for cap in range(1, maxcap + 1):
            base = ['CAP=%d' % cap, 'OW=%s' % ('true' if ow else 'false')]
            qs.append(Query('base_cap%d_ow%d' % (cap, ow), [H], base + ['BASE=1', 'NEWCAP=1', 'KN=0'], stl='real', unwind=cap + 3, timeout=300,
                            desc={'kind': 'base case (constructors + destruction)', 'capacity': cap, 'overwrite': ow}))
            for op, nm in OPS.items():
                variants = [(1, 0)]
                if op == 6:
                    variants = [(nc, 0) for nc in range(1, maxcap + 1) if nc != cap]
                if op in (8, 10):
                    variants = [(2, 0), (2, 1), (2, 2)]   # target buffer of capacity 2 holding 0, 1 or 2 elements
                for newcap, kn in variants:
                    qs.append(Query('step_%s_cap%d_new%d_k%d_ow%d' % (nm.replace('-', '_'), cap, newcap, kn, ow), [H], base + ['OP=%d' % op, 'NEWCAP=%d' % newcap, 'KN=%d' % kn],
                                    stl='real', unwind=max(cap, newcap) + 3, timeout=900 if tier == 'quick' else 2400,
                                    desc={'kind': 'inductive step + destruction', 'operation': nm, 'capacity': cap, 'new_capacity': newcap if op == 6 else None,
                                          'assignment_target': {'capacity': newcap, 'elements': kn} if op in (8, 10) else None, 'overwrite': ow,
                                          'symbolic': 'head position, size, element values, argument; raw storage outside the live range is nondeterministic'}))
    return qs, maxcap


def finding_of(q, failed):
    return None


def run(tier, seed):
    ck = Check('C09', tier, seed)
    qs, maxcap = plan(tier)
    ck.bounds = {'capacity': '1..%d' % maxcap, 'new capacity (resize)': '1..%d' % maxcap, 'assignment target': 'capacity 2 with 0..2 elements', 'overwrite modes': 'both',
                 'element type': 'vf::Tracked (class type, bitwise relocatable, registry of live/moved-from/destroyed ids)',
                 'history length': 'unbounded within the capacity bound (1-step induction from an arbitrary valid state, then destruction)',
                 'outside': 'capacities > %d, resize(0), element types that are not bitwise relocatable' % maxcap}
    ck.assumptions = ['documented preconditions of the operations', 'moved-from shells left behind by pop are tolerated (never counted as live)',
                      'raw storage (outside the live range) holds arbitrary bytes', 'allocation never fails', 'heap leak = block allocated and not freed when every buffer is destroyed (counter in the allocation model; LeakSanitizer in the native replay)']
    ck.collect_functions([H], ['CAP=2', 'NEWCAP=3', 'OW=false', 'OP=6', 'KN=0'], stl='real')
    ck.run_all(qs)
    ck.classify(qs, finding_of)
    return ck.finish(qs, rule='one CBMC query per (operation kind, capacity, [new capacity | target fill], overwrite mode); the solver decides over every head position, size, value and raw-storage content; '
                     'non-trivial = discharged with all REACH witnesses reachable')


def replay(path):
    ck = Check('C09', 'quick', 0)
    ok, out = ck.native_replay(path)
    print(out)
    if ok:
        print('VIOLATION property=C09 replay=%s' % path)
        return 1
    return 0

"""Shared plan for the ThreadPool properties (C07, C08)."""
import os, itertools
from vflib.check import Check, Query
from vflib.core import VERIF
from checks.resource_common import PRIMS, RT, build_with_repo

H = os.path.join(VERIF, 'harness', 'h_pool.cpp')
SRCS = ['src/threading/ThreadPool.cpp', 'src/threading/Thread.cpp', 'src/threading/Runnable.cpp']
OPN = {0: '-', 1: 'start(task)', 2: 'clear()', 3: 'stop()', 4: 'wait for all submitted tasks'}


class PoolCheck(Check):
    def build(self, q):
        return build_with_repo(self, q)


def pool_query(name, ops, maxthreads, K, racy=True, timeout=1800, liveness=True):
    ops = list(ops) + [0] * (4 - len(ops))
    ntask = max(1, sum(1 for o in ops if o == 1))
    nthr = 1 + min(maxthreads, ntask)
    q = Query(name, [H], ['OP%d=%d' % (i, o) for i, o in enumerate(ops)] + ['NTASK=%d' % ntask, 'MAXTHREADS=%d' % maxthreads, 'VF_LIST_CAP=3'], stl='model', rt=RT,
              cbmc_defines=['VF_K=%d' % K, 'VF_NTHR=%d' % nthr, 'VF_PRESTART=1'] + (['VF_LIVENESS=1'] if liveness else []), unwind=5, unwindset=['vf_run.0:%d' % (K + 2)], timeout=timeout, mem_gb=14,
              expect_reach=['owner finished', 'all threads finished'], ll2c_kw={'co': True, 'yield_prims': PRIMS, 'racy_yield': racy}, inline_all=True,
              desc={'owner_program': [OPN[o] for o in ops if o] + ['stop()'], 'max_threads': maxthreads, 'tasks': ntask, 'symbolic': 'the schedule (%d thread choices)' % K,
                    'racy_fields_are_scheduling_points': racy})
    q.repo_srcs = SRCS
    q.native_repo_srcs = SRCS
    q.native_shim = True
    q.native_defines = ['VF_PRESTART=1']
    return q


ASSUME = ['sequential consistency', 'context switches at synchronisation operations and (racy configuration) before every access to ThreadPool::m_isRunning and Thread::m_isFinished, the two fields accessed without synchronisation',
          'model std::list (array, capacity 3), std::thread/mutex/condition_variable = scheduler primitives, system_clock::now() = arbitrary non-decreasing instants', 'non-expiring workers (expiry timeout -1), as quantified by the properties',
          'spurious wake-ups disabled in liveness queries']

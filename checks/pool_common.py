"""Shared plan for the ThreadPool properties (C07, C08, pool part of C15): sequentialised real ThreadPool.cpp + Thread.cpp under a symbolic schedule."""
import os, itertools
from vflib.check import Check, Query
from vflib.core import VERIF
from checks.resource_common import PRIMS, RT, build_with_repo

H = os.path.join(VERIF, 'harness', 'h_pool.cpp')
SRCS = ['src/threading/ThreadPool.cpp', 'src/threading/Thread.cpp', 'src/threading/Runnable.cpp']
OPN = {0: '-', 1: 'start(task)', 2: 'clear()', 3: 'stop()', 4: 'wait for all submitted tasks', 5: 'update()', 6: 'getters (active count, count, isRunning, max, expiry)'}
# memory-safety instrumentation is reduced for these units (measured: pointer checks triple the solver time): array bounds and division only;
# lifetime errors of tasks are visible through the harness' ghost state (canary, entered/exited/destroyed counters)
POOL_FLAGS = ['--unwinding-assertions', '--drop-unused-functions', '--object-bits', '12', '--no-malloc-may-fail', '--no-standard-checks', '--bounds-check', '--div-by-zero-check']


class PoolCheck(Check):
    def build(self, q):
        return build_with_repo(self, q)

    def classify(self, queries, finding_of=None, required_reach=None):
        Check.classify(self, queries, finding_of, required_reach)
        group_rule(self, queries)

    def native_replay(self, path, **kw):
        # ThreadPool deletes PooledThread objects through Thread* (no virtual destructor): ASan's sized-delete check fires on the unchanged
        # library in every run that reaches stop(); it is outside the given properties (DESIGN 8.4) and would mask the replayed schedule
        os.environ['VF_ASAN_EXTRA'] = ':new_delete_type_mismatch=0'
        return Check.native_replay(self, path, **kw)


def group_rule(self, queries):
        # schedule-prefix cubes of one query: the reachability witnesses must be reached in at least one cube (infeasible prefixes reach nothing)
        groups = {}
        for q in queries:
            if getattr(q, 'group', None):
                groups.setdefault(q.group, []).append(q)
        for g, qs in groups.items():
            want = set(qs[0].group_reach)
            got = set(w for q in qs if q.result for w in q.result.reached)
            if want - got and all(q.result and q.result.status in ('OK', 'FAIL') for q in qs):
                self.broken.append('%s: vacuous: witness(es) unreachable in every schedule-prefix cube: %s' % (g, sorted(want - got)))


def cubed(q_args, q_kw, cube_bits, nthr_choices=2):
    """splits one pool query into schedule-prefix cubes: the first steps are the owner's (no other thread exists yet), the next `cube_bits` thread
    choices are enumerated (2^bits cubes, run in parallel); the rest of the schedule stays symbolic. The union of the cubes is the original query."""
    racy = q_kw.get('racy', True)
    zeros = 4 if racy else 3          # owner steps before the first worker can run: [racy read of m_isRunning,] lock queue, lock pool, create+notify
    reach = tuple(q_kw.pop('expect_reach', ('owner finished', 'all threads finished')))
    out = []
    for bits in itertools.product(range(nthr_choices), repeat=cube_bits):
        q = pool_query(q_args[0] + '_c' + ''.join(str(b) for b in bits), *q_args[1:], expect_reach=(), prefix=[0] * zeros + list(bits), **q_kw)
        q.group = q_args[0]
        q.group_reach = list(reach)
        q.mem_weight = 3
        out.append(q)
    return out


def pool_query(name, ops, maxthreads, K, racy=True, timeout=3000, liveness=True, prefix_only=False, harness_defs=(), expect_reach=('owner finished', 'all threads finished'), prefix=None):
    ops = list(ops) + [0] * (4 - len(ops))
    ntask = max(1, sum(1 for o in ops if o == 1))
    # thread ids are never reused by the scheduler: after a stop() a later start() creates a fresh worker
    nthr = 1 + (ntask if 3 in ops[:-1] else min(maxthreads, ntask))
    cdefs = ['VF_K=%d' % K, 'VF_NTHR=%d' % nthr, 'VF_PRESTART=1', 'VF_UNDEF_PTR_NULL=1'] + (['VF_LIVENESS=1'] if liveness else []) + (['VF_PREFIX_ONLY=1'] if prefix_only else []) + (['VF_PREFIX=' + ','.join(str(x) for x in prefix)] if prefix else [])
    q = Query(name, [H], ['OP%d=%d' % (i, o) for i, o in enumerate(ops)] + ['NTASK=%d' % ntask, 'MAXTHREADS=%d' % maxthreads, 'VF_LIST_CAP=3', 'VF_SPLIT_ENTRY=1'] + list(harness_defs), stl='model', rt=RT,
              cbmc_defines=cdefs, unwind=5, unwindset=['vf_run.0:%d' % (K + 2)], timeout=timeout, mem_gb=20,
              expect_reach=list(expect_reach), ll2c_kw={'co': True, 'yield_prims': PRIMS, 'racy_yield': racy, 'step_prune': True, 'static_new': True}, inline_all=True,
              desc={'owner_program': [OPN[o] for o in ops if o] + ['stop()'], 'max_threads': maxthreads, 'tasks': ntask, 'symbolic': 'the schedule (%d thread choices)' % K,
                    'racy_fields_are_scheduling_points': racy, 'complete_runs': not prefix_only, 'schedule_prefix_cube': prefix})
    q.repo_srcs = SRCS
    q.native_repo_srcs = SRCS
    q.native_shim = True
    q.native_defines = ['VF_PRESTART=1']
    q.native_racy = {'src/threading/ThreadPool.cpp': ['m_isRunning'], 'src/threading/Thread.cpp': ['m_isFinished'], 'include/tulz/threading/Thread.h': ['m_isFinished']} if racy else {}
    q.cbmc_flags = POOL_FLAGS
    q.extra_cbmc = ['--external-sat-solver', 'kissat', '--slice-formula']   # measured on this unit (K=12): kissat 46 s, CaDiCaL 80 s, MiniSat 96 s
    q.mem_weight = 6
    q.bound_follows_property = True
    return q


ASSUME = ['sequential consistency', 'context switches at synchronisation operations and before every access to ThreadPool::m_isRunning and (while it is a plain bool) Thread::m_isFinished, the two fields accessed without a lock',
          'model std::list (array, capacity 3), std::thread/mutex/condition_variable = scheduler primitives, system_clock::now() = arbitrary instants', 'non-expiring workers (expiry timeout -1), as quantified by the properties',
          'spurious wake-ups disabled in liveness queries', 'one static buffer per `new` site (at most one live object per site, BOUND-asserted); a deleted object is marked dead, use after delete shows through the ghost state of the harness',
          'an uninitialised pointer (`Runnable *runnable;`) is modelled as null', 'resume points are explored only from the scheduler step at which they can first be reached (static shortest-path bound, guarded by INTERNAL assertions)']
STUBS = ['std::list', 'std::thread', 'std::mutex', 'std::condition_variable', 'system_clock', 'operator new/delete']

"""Shared plan for the SubjectRouter properties (C06, C13)."""
import os, itertools
from vflib.check import Check
from vflib.core import VERIF
from checks.skel import Unit, CubeQuery, run_cubes

H = os.path.join(VERIF, 'harness', 'h_router.cpp')
ROUTER_SRCS = ['src/observer/routing/RoutingKey.cpp', 'src/observer/routing/RoutingKeyBuilder.cpp', 'src/observer/routing/RoutingLevelView.cpp', 'src/observer/routing/SubjectRouter.cpp']
SIGS = {0: 'notify<>()', 1: 'notify<int>', 2: 'notify<const S&>', 3: 'notify<S> (class type by value)'}
KN = {1: 'a', 2: 'b', 3: 'regex r1', 4: 'regex r2', 5: '.*'}


def keys(depth):
    out = []
    for d in range(1, depth + 1):
        for t in itertools.product((1, 2), repeat=d):
            c = 0
            for x in t:
                c = c * 3 + x
            out.append(c)
    return out


def keyname(c):
    s = ''
    while c:
        s = '/' + 'ab'[c % 3 - 1] + s
        c //= 3
    return s or '/'


def patterns(depth, kinds=(1, 2, 3, 4, 5)):
    out = []
    for d in range(1, depth + 1):
        for t in itertools.product(kinds, repeat=d):
            c = 0
            for x in t:
                c = c * 6 + x
            out.append((c, t))
    return out


def patname(t):
    return '/' + '/'.join(KN[x] for x in t)


def unit(sig, mode, depth=2, concurrent=False):
    defs = ['SIG=%d' % sig, 'MODE=%d' % mode, 'DEPTH=%d' % depth, 'VF_STR_CAP=3'] + (['CONCURRENT=1'] if concurrent else [])
    srcs = list(ROUTER_SRCS) + (['src/threading/rwp/Resource.cpp'] if concurrent else [])
    return Unit('router_s%d_m%d_d%d%s' % (sig, mode, depth, '_conc' if concurrent else ''), [H], defs, repo_srcs=srcs, extra_rt=(['rt_sync_seq.c'] if concurrent else []))

"""C16: Observable notifies exactly on change, with the new value — operator-sequence cubes x SAT query each."""
import os, itertools
from vflib.check import Check
from vflib.core import VERIF
from checks.skel import Unit, CubeQuery, run_cubes

H = os.path.join(VERIF, 'harness', 'h_obs.cpp')
OPN = ['=', '+=', '-=', '*=', '/=', '++x', 'x++', '--x', 'x--', 'apply(add)', 'apply(no net change)']
TYPES = {0: ('Observable<int>', [0, 1, 2, 5, 6, 7, 8, 9, 10]), 1: ('Observable<short>', [0, 1, 2, 3, 4, 5, 6, 7, 8, 9, 10]),
         2: ('Observable<float, NearEq(0.5)>', [0, 1, 2, 9, 10]), 4: ('Observable<int, BucketEq> (coarse equality: ++/-- inside one class must still notify)', [0, 1, 5, 6, 7, 8, 9]), 3: ('Observable<std::string> (model string)', [0, 1, 9, 10])}


def plan(tier):
    units = {ty: Unit('obs_t%d' % ty, [H], ['TY=%d' % ty]) for ty in TYPES}
    qs = []
    for ty, (tn, ops) in TYPES.items():
        maxlen = 2 if tier == 'quick' else (3 if ty == 0 else 2)
        for ln in range(1, maxlen + 1):
            for seq in itertools.product(ops, repeat=ln):
                if tier == 'quick' and ty == 1 and ln == 2 and not (set(seq) & {3, 4}):
                    continue   # short exists for *= and /=; the other pairs are covered by int
                variants = [(1, -1), (2, -1), (2, 0)] if (ln >= 2 or tier != 'quick') else [(1, -1), (2, -1)]
                # string operands: concrete lengths (a symbolic length makes every buffer index symbolic), symbolic contents
                lens = [0]
                if ty == 3:
                    choices = (0, 1) if tier == 'quick' else (0, 1, 2)
                    lens = [sum(l << (2 * k) for k, l in enumerate(p)) for p in itertools.product(choices, repeat=ln + 1)]
                    if tier == 'quick':
                        variants = [(1, -1), (2, 0)] if ln >= 2 else [(2, -1)]
                for lp in lens:
                    for nsub, unsub in variants:
                        cube = list(seq) + [-1] * (4 - ln) + [lp, 0, nsub, unsub]
                        name = 't%d_%s_s%d_u%d_l%d' % (ty, '.'.join(str(o) for o in seq), nsub, unsub, lp)
                        qs.append(CubeQuery(name, units[ty], cube, unwind=20 if ty == 3 else 12, timeout=300, expect_reach=['end'],
                                            desc={'type': tn, 'operators': [OPN[o] for o in seq], 'subscribers': nsub, 'unsubscribe_after_op': unsub if unsub >= 0 else None,
                                                  'string_operand_lengths(2 bits each)': lp if ty == 3 else None,
                                                  'symbolic': 'initial value and every operand' + (' (contents; lengths are part of the cube)' if ty == 3 else '')}))
    return list(units.values()), qs


def run(tier, seed):
    ck = Check('C16', tier, seed)
    units, qs = plan(tier)
    ck.bounds = {'operator sequence length': '<= 2' if tier == 'quick' else '<= 3', 'subscribers': '1..2, one may unsubscribe after the first operator',
                 'types': [v[0] for v in TYPES.values()], 'value ranges': 'int in [-512,511], short in [-16,15], float multiples of 0.25 in [-4,4), strings over {a,b} of length <= 2 (model string capacity 15)',
                 'outside': 'float *= and /= (multiplier circuits), longer sequences, overflow (documented precondition), real std::string'}
    ck.assumptions = ['no signed overflow and divisor != 0 (documented preconditions; value ranges above)', 'model STL (see C05) incl. fixed-capacity model string for the string instance',
                      'float comparisons are exact for the chosen grid of values']
    ck.collect_functions([H], ['TY=0'])
    run_cubes(ck, units, qs)
    ck.classify(qs)
    return ck.finish(qs, rule='cube = (value type, operator sequence, subscriber count, unsubscribe position); one CBMC query per cube decides over the initial value and all operands whether '
                     'notified <=> !eq(old,new) (always for ++/--), once per subscriber, with the post-operation value by reference; non-trivial = discharged with REACH witness',
                     stubs=['std::forward_list', 'std::set', 'std::function', 'std::unique_ptr', 'std::string (string instance only)'])


def replay(path):
    ck = Check('C16', 'quick', 0)
    ok, out = ck.native_replay(path)
    print(out)
    if ok:
        print('VIOLATION property=C16 replay=%s' % path)
        return 1
    return 0

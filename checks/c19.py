"""C19: LocaleInfo::get is total, memory-safe and consistent with its tables — bounded model checking over every input string of a given length."""
import os
from vflib.check import Check, Query
from vflib.core import VERIF
from checks.resource_common import build_with_repo

H = os.path.join(VERIF, 'harness', 'h_loc.cpp')


class LCheck(Check):
    def build(self, q):
        return build_with_repo(self, q)


def plan(tier):
    qs = []
    # (kind, length): 'safe' = memory safety of every access for every string of that length; 'full' = safety + result oracle
    specs = [('small', 5), ('safe', 66)] if tier == 'quick' else [('full', 3), ('full', 5), ('full', 6), ('full', 7), ('full', 8), ('full', 9), ('safe', 12), ('safe', 40), ('safe', 66), ('safe', 70)]
    specs = [(k, l, None) for k, l in specs]
    # (splitting the small-alphabet query by its first byte was tried: every cube takes as long as the whole query, the time is in the table loops)
    for kind, ln, first in specs:
        q = Query('%s_string_len%d%s' % (kind, ln, '' if first is None else '_first%02x' % first), [H], ['LEN=%d' % ln, 'VF_LIST_CAP=8'] + (['FIRST_BYTE=%d' % first] if first is not None else []) + (['ORACLE=1'] if kind in ('full', 'small') else []) + (['SMALL_ALPHABET=1'] if kind == 'small' else []), stl='model', rt=('rt_cbmc.c', 'rt_main.c', 'rt_model.c', 'rt_str.c'), unwind=256,
                  unwindset=['strcmp.0:%d' % max(ln + 3, 68), 'strlen.0:%d' % (ln + 3), 'strstr.0:%d' % (ln + 3), 'memcpy.0:%d' % max(ln + 3, 132), 'memset.0:132'],
                  timeout=3000, mem_gb=14, expect_reach=((['fallback'] + (['success'] if ln >= 5 and first in (None, ord('e')) else [])) if first in (None, ord('e'), ord('x')) else []) if kind in ('full', 'small') else ['returned'],
                  desc={'input': 'every NUL-terminated string of exactly %d bytes (each byte symbolic, non-zero)' % ln + (' over the alphabet {e,n,G,B,_,.,x}' if kind == 'small' else ''), 'tables': 'the real 224 language and 249 country entries',
                        'obligations': 'memory safety of every access' + ('; result = documented fallback or a table hit naming the input\'s parts' if kind in ('full', 'small') else '')})
        q.repo_srcs = ['src/LocaleInfo.cpp']
        q.mem_weight = 6
        q.extra_cbmc = ['--sat-solver', 'cadical', '--slice-formula']   # MiniSat does not finish the length-66 query in 25 min; CaDiCaL + slicing: 5 min
        q.native_repo_srcs = q.repo_srcs
        qs.append(q)
    return qs


def run(tier, seed):
    ck = LCheck('C19', tier, seed)
    qs = plan(tier)
    ck.bounds = {'input length': 'exactly n bytes for n in %s (covers parts of >= 64 bytes, every delimiter order, empty and unknown parts)' % [q.name for q in qs],
                 'outside': 'other lengths; the claim per length is complete (all 255^n strings)'}
    ck.assumptions = ['model std::list (array, capacity 8, BOUND-asserted)', 'strstr/strlen/strcmp/memcpy/memset are plain C loops with CBMC bounds checks (rt_str.c)', 'fprintf is a no-op',
                      'uninitialised locals are nondeterministic (clang undef -> fresh value): a field that is never written fails the table-membership checks']
    ck.collect_functions([H, os.path.join(ck.ws.prepare_repo(), 'src/LocaleInfo.cpp')], ['LEN=5'])
    ck.run_all(qs)
    ck.classify(qs)
    return ck.finish(qs, rule='one CBMC query per input length over the real LocaleInfo.cpp with its full tables: memory safety of every access, and the result is either the documented fallback (error set) or a table hit whose '
                     'language/country are the ones named by the input (pointers are table entries)', stubs=['std::list (array model)', 'string.h loops', 'fprintf'])


def replay(path):
    ck = LCheck('C19', 'quick', 0)
    ok, out = ck.native_replay(path)
    print(out)
    if ok:
        print('VIOLATION property=C19 replay=%s' % path)
        return 1
    return 0

"""Shared helper for skeleton-cube checks: a harness TU is compiled once per instantiation; every cube is one CBMC query on the same C
with the skeleton constants passed through rt/cube.c (-DCUBE=...), so they are concrete during symbolic execution."""
import os
from vflib.check import Query
from vflib.core import VERIF


class CubeQuery(Query):
    def __init__(self, name, unit, cube, **kw):
        super().__init__(name, unit.srcs, unit.defines, stl='model', rt=('rt_cbmc.c', 'rt_main.c', 'rt_model.c', 'cube.c') + tuple(unit.extra_rt),
                         cbmc_defines=['CUBE=' + ','.join(str(c) for c in cube)] + list(unit.cbmc_defines), **kw)
        self.unit = unit
        self.cube = cube
        self.native_repo_srcs = list(unit.repo_srcs)
        self.native_defines = [d for d in unit.defines if d.startswith('VF_') is False and False]


class Unit:
    """a compiled+translated harness shared by many cube queries"""

    def __init__(self, tag, srcs, defines=(), extra_rt=(), cbmc_defines=(), ll2c_kw=None, inline_all=False, repo_srcs=()):
        self.tag = tag
        self.srcs = list(srcs)
        self.repo_srcs = list(repo_srcs)   # paths relative to the scratch copy of /repo
        self.defines = list(defines)
        self.extra_rt = list(extra_rt)
        self.cbmc_defines = list(cbmc_defines)
        self.ll2c_kw = ll2c_kw or {}
        self.inline_all = inline_all
        self.cfile = None
        self.error = None

    def build(self, ck):
        from vflib import core
        try:
            repo = ck.ws.prepare_repo()
            srcs = self.srcs + [os.path.join(repo, s) for s in self.repo_srcs]
            ll = core.compile_ir(ck.ws, srcs, ck.ws.path(self.tag + '.ll'), defines=self.defines, stl='model', inline_all=self.inline_all)
            self.cfile = core.translate(ll, ck.ws.path(self.tag + '.c'), **self.ll2c_kw)
        except core.BrokenCheck as e:
            self.error = str(e)
        return self


def run_cubes(ck, units, queries):
    """builds the units (in parallel), then runs all cube queries"""
    from vflib import core
    from concurrent.futures import ThreadPoolExecutor
    with ThreadPoolExecutor(max_workers=core.NCPU) as ex:
        list(ex.map(lambda u: u.build(ck), units))
    for u in units:
        if u.error:
            raise core.BrokenCheck('unit %s: %s' % (u.tag, u.error))
    for q in queries:
        q.cfile = q.unit.cfile
        q.keep_c = True
    ck.run_all(queries)

"""C13: shrink is invisible to delivery; exists/depth stay consistent — cubes x SAT query each."""
from checks.router_common import *


def pcode(t):
    c = 0
    for x in t:
        c = c * 6 + x
    return c


def plan(tier):
    u = unit(1, 13, 2, False)
    uc = unit(1, 13, 2, True)
    qs = []
    K = keys(2)
    subsets = [(k,) for k in K] + [t for t in itertools.product(K, repeat=2) if t[0] <= t[1]]
    if tier == 'quick':
        shrinks = [(5,), (5, 5), (1,), (1, 5), (3, 4), (1, 2)]   # (3,) and (5,1) in the thorough tier only (quick tier time budget)
        probes = [(3, 4)]
    else:
        shrinks = [t for _, t in patterns(2)]
        probes = [(3, 4)]
    for subs in subsets:
        kills = [(0, 0), (1, 0)] + ([(1, 1)] if len(subs) == 2 else []) + ([(2, 0)] if tier != 'quick' else [])
        for kill, kj in kills:
            for sp in shrinks:
                for pp in probes:
                    # truth table of the shrink pattern's regexes r3, r4 (bit0: r3~a, bit1: r3~b, bit2: r4~a, bit3: r4~b): concrete, it decides which nodes are erased
                    if not any(x >= 3 for x in sp):
                        tts = [0]
                    elif 4 not in sp:
                        tts = [1, 2, 3] if tier == 'quick' else [0, 1, 2, 3]
                    else:
                        tts = [1 + 8, 3 + 4, 2 + 12] if tier == 'quick' else [0, 1 + 8, 3 + 4, 2 + 12, 15, 6]
                    for tt, conc in [(t_, c_) for t_ in tts for c_ in ((False, True) if (tier != 'quick' and kill != 2 and t_ == tts[0]) else (False,))]:
                        cube = [len(subs)] + list(subs) + [0] * (3 - len(subs)) + [kill, kj, tt, pcode(pp), pcode(sp), pcode(pp)]
                        name = 'k%s_x%d%d_s%d_t%d_p%d%s' % ('.'.join(str(s) for s in subs), kill, kj, pcode(sp), tt, pcode(pp), 'c' if conc else '')
                        qs.append(CubeQuery(name, uc if conc else u, cube, unwind=12, timeout=120, expect_reach=['end'],
                                            desc={'router': 'ConcurrentSubjectRouter (one thread)' if conc else 'SubjectRouter', 'subscriptions': [keyname(s) for s in subs],
                                                  'killed': {0: 'none', 1: 'unsubscribe #%d' % kj, 2: 'invalidate #%d + notify (lazy removal)' % kj}[kill], 'shrink_pattern': patname(sp), 'shrink_regex_truth_table_bits': tt,
                                                  'probe_and_exists_pattern': patname(pp), 'symbolic': 'regex truth table (so the probe reaches an arbitrary subset per level), argument values'}))
    return [u, uc] if tier != 'quick' else [u], qs


def run(tier, seed):
    ck = Check('C13', tier, seed)
    units, qs = plan(tier)
    ck.bounds = {'level names': '{a, b}', 'key depth': '<= 2', 'subscriptions': '<= 2 (one may be dead: unsubscribed or invalidated and lazily removed)',
                 'shrink patterns': '8 representative patterns' if tier == 'quick' else 'every pattern of depth <= 2 over {a, b, r1, r2, .*}', 'outside': 'deeper trees, more subscriptions, re-subscribe after shrink'}
    ck.assumptions = ['regex = symbolic truth table (see C06)', 'model of the stored keys: prefix-closed set; shrink erases, bottom-up, every empty child of a node visited by the pattern',
                      'the probe pattern uses regex levels, so one query covers every subset of names per level']
    ck.collect_functions([H] + [os.path.join(ck.ws.prepare_repo(), s) for s in ROUTER_SRCS], ['SIG=1', 'MODE=13', 'DEPTH=2', 'VF_STR_CAP=3'])
    run_cubes(ck, units, qs)
    ck.classify(qs)
    return ck.finish(qs, rule='cube = (subscription keys, which subscription is dead and how, shrink pattern, probe pattern); one CBMC query per cube decides over every regex truth table and argument value: delivery identical '
                     'before/after shrink, exists() on every concrete key equals the model (only dead keys whose parent lies along the pattern are removed), full wildcard shrink leaves no dead branch, exists(pattern) and depth() agree with the model',
                     stubs=['std::map', 'std::vector', 'std::variant', 'std::string', 'std::regex (truth table)', 'Subject stack models (see C05)'])


def replay(path):
    ck = Check('C13', 'quick', 0)
    ok, out = ck.native_replay(path)
    print(out)
    if ok:
        print('VIOLATION property=C13 replay=%s' % path)
        return 1
    return 0

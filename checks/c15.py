"""C15: data-race freedom — (a) happens-before monitor on the sequentialised Resource, (b) lock discipline of ConcurrentSubjectRouter (+ C01), (c) happens-before monitor on the sequentialised ThreadPool/Thread."""
from checks.resource_common import *
from checks import c11 as C11
from checks.skel import run_cubes

RT_HB = ('rt_cbmc.c', 'rt_model.c', 'rt_sched.c', 'rt_hb.c')


def plan(tier):
    qs = []
    sets = [(('R', 'W'), 14), (('W', 'W'), 14), (('R', 'R'), 14)] if tier == 'quick' else [(('R', 'W'), 14), (('W', 'W'), 14), (('R', 'R'), 14), (('RW', 'W'), 22), (('RW', 'WR'), 28), (('R', 'R', 'W'), 22), (('R', 'W', 'W'), 22)]
    for progs, K in sets:
        q = ResQuery('hb_%s' % '_'.join(progs), progs, harness_defs=['HB_MONITOR=1'], K=K, timeout=2400,
                     desc={'component': 'rwp::Resource + guards', 'threads': list(progs), 'symbolic': 'the schedule (%d thread choices) and the watched byte (any byte of the Resource object)' % K,
                           'monitor': 'vector clocks: mutex release->acquire, thread start; an access to the watched byte unordered with the last conflicting access is a data race'})
        q.rt = list(RT_HB)
        q.ll2c_kw = dict(q.ll2c_kw, acc_prefixes=('',))
        q.cbmc_defines = q.cbmc_defines + ['VF_HB=1']
        q.required_reach = ['all threads finished', 'the watched byte is accessed by two different threads']
        q.unwindset = q.unwindset + ['__vf_acc.0:10', '__vf_hb_track.0:10', 'slot.0:10']
        qs.append(q)
    return qs


def pool_plan(tier):
    """(c) ThreadPool: owner program x expiry setting; happens-before monitor over the pool object, the objects it allocates and the submitted tasks.
    Each query is split into schedule-prefix cubes (run in parallel)."""
    from checks import pool_common as PC
    progs = [((1,), -1, 12, 'stop', 2), ((1, 6, 5), 0, 12, 'expiry', 2)] if tier == 'quick' else [((1,), -1, 22, 'stop', 4), ((1, 6, 5), 0, 22, 'expiry', 4), ((1, 1, 6), 0, 24, 'expiry2', 4)]
    qs = []
    for ops, expiry, K, tag, bits in progs:
        for q in PC.cubed(('hb_pool_%s_k%d' % (tag, K), ops, 1, K), dict(racy=False, prefix_only=True, liveness=False, harness_defs=['HB_MONITOR=1', 'EXPIRY=%d' % expiry], expect_reach=('the watched byte is accessed by two different threads',)), bits):
            q.rt = list(RT_HB)
            q.ll2c_kw = dict(q.ll2c_kw, acc_prefixes=('',))
            q.cbmc_defines = q.cbmc_defines + ['VF_HB=1', 'VF_NEW_HOOK=1', 'NTRACK=12']
            q.unwindset = q.unwindset + ['__vf_acc.0:14', '__vf_hb_track.0:14', 'slot.0:10']
            q.desc = dict(q.desc, component='ThreadPool + Thread', expiry_timeout=expiry, symbolic='the rest of the schedule (%d thread choices in all), the clock, and the watched byte (any byte of the pool, its worker/runnable/thread-state objects and the tasks)' % K)
            q.native_racy = {}
            qs.append(q)
    return qs


class C15Check(ResCheck):
    def classify(self, queries, finding_of=None, required_reach=None):
        from checks.pool_common import group_rule
        ResCheck.classify(self, queries, finding_of, required_reach)
        group_rule(self, queries)      # schedule-prefix cubes of the pool queries

    def confirm(self, q, path):
        """native confirmation of a race on the Resource: the same thread programs on real threads under ThreadSanitizer"""
        import subprocess, json
        from vflib import core
        rp = json.load(open(path))
        if 'h_pool' in ' '.join(rp['harness']):
            exe = self.ws.path('tsan_' + os.path.basename(path).replace('.json', ''))
            exp = [d for d in rp['defines'] if d.startswith('EXPIRY=')]
            srcs = [os.path.join(VERIF, 'harness', 'h_pool_tsan.cpp')] + [os.path.join(core.REPO, s_) for s_ in ('src/threading/ThreadPool.cpp', 'src/threading/Thread.cpp', 'src/threading/Runnable.cpp')]
            r = subprocess.run(['g++', '-std=c++20', '-g', '-O1', '-fsanitize=thread', '-I', os.path.join(core.REPO, 'include')] + ['-D' + d for d in exp] + srcs + ['-o', exe, '-lpthread'], capture_output=True, text=True)
            if r.returncode != 0:
                raise core.BrokenCheck('TSan confirmation build failed:\n' + r.stderr[-2000:])
            try:
                r = subprocess.run([exe], capture_output=True, text=True, errors='replace', timeout=120, env=dict(os.environ, TSAN_OPTIONS='exitcode=66 halt_on_error=1'))
            except subprocess.TimeoutExpired:
                return False, 'TSan confirmation timed out (the stress program hung)'
            return r.returncode == 66, 'exit=%d (ThreadSanitizer on the real build, owner/worker stress program)\n%s' % (r.returncode, r.stderr[-2500:])
        exe = self.ws.path('tsan_' + os.path.basename(path).replace('.json', ''))
        defs = ['-D' + d for d in rp['defines'] if d[:2] in ('P0', 'P1', 'P2', 'P3')]
        srcs = [os.path.join(VERIF, 'harness', 'h_res_tsan.cpp'), os.path.join(core.REPO, 'src/threading/rwp/Resource.cpp')]
        r = subprocess.run(['g++', '-std=c++20', '-g', '-O1', '-fsanitize=thread', '-I', os.path.join(core.REPO, 'include')] + defs + srcs + ['-o', exe, '-lpthread'], capture_output=True, text=True)
        if r.returncode != 0:
            raise core.BrokenCheck('TSan confirmation build failed:\n' + r.stderr[-2000:])
        try:
            r = subprocess.run([exe], capture_output=True, text=True, errors='replace', timeout=300, env=dict(os.environ, TSAN_OPTIONS='exitcode=66 halt_on_error=1'))
        except subprocess.TimeoutExpired:
            return False, 'TSan confirmation timed out'
        return r.returncode != 0, 'exit=%d (ThreadSanitizer on the real build)\n%s' % (r.returncode, r.stderr[-2500:])


def run(tier, seed):
    ck = C15Check('C15', tier, seed)
    qs = plan(tier)
    units, cubes = C11.plan(tier)
    if tier == 'quick':
        cubes = cubes[::3]
    ck.bounds = {'Resource': 'quick: 2 threads x <=2 pairs; thorough adds 3 threads x 1 pair; every schedule of K steps, every byte of the Resource object as watched location',
                 'ConcurrentSubjectRouter': 'lock discipline of every operation (see C11): with C01 every pair of conflicting accesses to router memory is ordered by the Resource',
                 'ThreadPool': 'owner programs start;stop and start;getters;update;stop with expiring workers (timeout 0, arbitrary clock): every schedule prefix of K steps (quick 14/16, thorough 22-24), every byte of the pool object, '
                               'of the worker / runnable / thread-state objects it allocates and of the submitted tasks as watched location',
                 'outside': 'weak memory; accesses removed by the -O1 optimiser'}
    ck.assumptions = COMMON_ASSUME + ['accesses are those of the -O1 IR (a race optimised away would be missed)', 'the model mutex word and the model condition variable are synchronisation objects, not data']
    ck.collect_functions([H, os.path.join(ck.ws.prepare_repo(), 'src/threading/rwp/Resource.cpp')], ['NW=2', 'P0=5', 'P1=1', 'HB_MONITOR=1'])
    pq = pool_plan(tier)
    qs = qs + pq
    ck.run_all(qs)
    ck.classify(qs)
    # part (b): lock discipline cubes (same machinery as C11)
    ck2 = C11.C11Check('C15', tier, seed)
    ck2.ws = ck.ws
    run_cubes(ck2, units, cubes)
    ck2.classify(cubes)
    ck.broken += ck2.broken
    ck.violations += ck2.violations
    ck.replays_confirmed += ck2.replays_confirmed
    return ck.finish(qs + cubes, rule='(a) one CBMC query per thread-program multiset over the sequentialised, access-instrumented Resource.cpp: over every schedule and every watched byte no unordered conflicting accesses; '
                     '(b) one query per (subscriptions, operation, pattern) cube: router memory is accessed only with the Resource held in the right mode; '
                     '(c) the same happens-before monitor on the sequentialised ThreadPool.cpp/Thread.cpp (mutex release->acquire, thread start/join, atomics), schedule-prefix cubes', stubs=['see C01, C08 and C11'])


def replay(path):
    import json
    rp = json.load(open(path))
    ck = C15Check('C15', 'quick', 0) if ('h_res' in ' '.join(rp['harness']) or 'h_pool' in ' '.join(rp['harness'])) else C11.C11Check('C15', 'quick', 0)
    ok, out = ck.confirm(None, path)
    print(out)
    if ok:
        print('VIOLATION property=C15 replay=%s' % path)
        return 1
    return 0

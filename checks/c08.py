"""C08: ThreadPool::stop() always terminates and leaves a quiescent, restartable pool."""
from checks.pool_common import *


def plan(tier):
    # (owner program, max threads, K, complete runs?, cube bits)   ops: 1 start(task), 2 clear(), 3 stop(), 4 wait for all submitted tasks, 5 update(); a final stop() is always appended
    # racy configuration: scheduling points at the unsynchronised flag accesses and between predicate evaluation and blocking.
    # These queries are NOT split into schedule-prefix cubes: with the racy scheduling points the all-owner-first cube is 7x larger than the whole
    # unsplit query (measured: 13.9 M vs 1.9 M SAT variables at K=20), so splitting loses.
    if tier == 'quick':
        progs = [((1,), 1, 20, False, 0)]
    else:
        progs = [((1,), 1, 26, True, 0), ((1, 3, 1), 1, 30, False, 0), ((1, 1), 2, 26, False, 0), ((1, 5, 1), 1, 26, False, 0)]
    qs = []
    for ops, mt, K, full, bits in progs:
        name = 'stop_%s_mt%d_k%d' % (''.join(str(o) for o in ops), mt, K)
        if bits:
            qs += cubed((name, ops, mt, K), dict(prefix_only=not full, expect_reach=('owner finished', 'all threads finished') if full else ()), bits, nthr_choices=min(mt, 2) + 1)
        else:
            qs.append(pool_query(name, ops, mt, K, prefix_only=not full, expect_reach=('owner finished', 'all threads finished') if full else ()))
    # complete runs under the sync-only configuration (side condition: no data race, C15c): K is asserted sufficient for every schedule to terminate,
    # so stop() returns on all of them and the post-conditions of stop() are checked on complete runs
    for ops, K in ([((1,), 20)] if tier == 'quick' else [((1,), 20), ((1, 3, 1), 34)]):
        qs.append(pool_query('stop_%s_mt1_sync_k%d' % (''.join(str(o) for o in ops), K), ops, 1, K, racy=False, prefix_only=False))
    return qs


def run(tier, seed):
    ck = PoolCheck('C08', tier, seed)
    qs = plan(tier)
    ck.bounds = {'tasks': '1..2', 'workers': '1' if tier == 'quick' else '1..2', 'owner programs': [q.desc['owner_program'] for q in qs],
                 'schedule': 'K thread choices per query; "complete_runs": K is asserted sufficient for every schedule to terminate (so stop() returns on all of them); otherwise the claim is about the first K steps of every schedule',
                 'outside': 'more tasks/workers; expiring workers; weak memory; schedules longer than K in prefix queries'}
    ck.assumptions = ASSUME
    ck.collect_functions([H] + [os.path.join(ck.ws.prepare_repo(), s) for s in SRCS], ['NTASK=1', 'MAXTHREADS=1', 'VF_LIST_CAP=3', 'VF_SPLIT_ENTRY=1'])
    ck.run_all(qs)
    ck.classify(qs)
    return ck.finish(qs, rule='one CBMC query per owner program over the sequentialised real ThreadPool.cpp/Thread.cpp decides over every schedule: stop() returns (no deadlock: a join that can never be enabled is reported), '
                     'getThreadCount()==0 afterwards, no task running, queued tasks destroyed, a later start() works, worker count <= maximum', stubs=STUBS)


def replay(path):
    ck = PoolCheck('C08', 'quick', 0)
    ok, out = ck.native_replay(path)
    print(out)
    if ok:
        print('VIOLATION property=C08 replay=%s' % path)
        return 1
    return 0

"""C08: ThreadPool::stop() always terminates and leaves a quiescent, restartable pool."""
from checks.pool_common import *


def plan(tier):
    qs = []
    progs = [((1,), 1, 22), ((1, 3, 1), 1, 34)] if tier == 'quick' else [((1,), 1, 22), ((1, 1), 1, 34), ((1, 3, 1), 1, 34), ((1, 1), 2, 40), ((1, 2, 1), 1, 36)]
    for ops, mt, K in progs:
        qs.append(pool_query('stop_%s_mt%d' % (''.join(str(o) for o in ops), mt), ops, mt, K))
    return qs


def run(tier, seed):
    ck = PoolCheck('C08', tier, seed)
    qs = plan(tier)
    ck.bounds = {'tasks': '1..2', 'workers': '1' if tier == 'quick' else '1..2', 'owner programs': [q.desc['owner_program'] for q in qs], 'schedule': 'K steps per query, asserted sufficient', 'outside': 'more tasks/workers; expiring workers; weak memory'}
    ck.assumptions = ASSUME
    ck.collect_functions([H] + [os.path.join(ck.ws.prepare_repo(), s) for s in SRCS], ['NTASK=1', 'MAXTHREADS=1', 'VF_LIST_CAP=3'])
    ck.run_all(qs)
    ck.classify(qs)
    return ck.finish(qs, rule='one CBMC query per owner program over the sequentialised real ThreadPool.cpp/Thread.cpp decides over every schedule: stop() returns (no deadlock: a join that can never be enabled is reported), '
                     'getThreadCount()==0 afterwards, no task running, queued tasks destroyed, a later start() works, worker count <= maximum', stubs=['std::list', 'std::thread', 'std::mutex', 'std::condition_variable', 'system_clock'])


def replay(path):
    ck = PoolCheck('C08', 'quick', 0)
    ok, out = ck.native_replay(path)
    print(out)
    if ok:
        print('VIOLATION property=C08 replay=%s' % path)
        return 1
    return 0

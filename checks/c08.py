"""C08: ThreadPool::stop() always terminates and leaves a quiescent, restartable pool."""
from checks.pool_common import *


def plan(tier):
    # (owner program, max threads, K, complete runs?, cube bits)   ops: 1 start(task), 2 clear(), 3 stop(), 4 wait for all submitted tasks, 5 update(); a final stop() is always appended
    # racy configuration: scheduling points at the unsynchronised flag accesses and between predicate evaluation and blocking
    if tier == 'quick':
        progs = [((1,), 1, 26, True, 4), ((1, 3, 1), 1, 22, False, 3)]
    else:
        progs = [((1,), 1, 26, True, 4), ((1, 3, 1), 1, 44, True, 4), ((1, 1), 2, 30, False, 4), ((1, 2, 1), 1, 30, False, 4), ((1, 5, 1), 1, 28, False, 4)]
    qs = []
    for ops, mt, K, full, bits in progs:
        qs += cubed(('stop_%s_mt%d_k%d' % (''.join(str(o) for o in ops), mt, K), ops, mt, K), dict(prefix_only=not full, expect_reach=('owner finished', 'all threads finished') if full else ()), bits, nthr_choices=min(mt, 2) + 1)
    return qs


def run(tier, seed):
    ck = PoolCheck('C08', tier, seed)
    qs = plan(tier)
    ck.bounds = {'tasks': '1..2', 'workers': '1' if tier == 'quick' else '1..2', 'owner programs': [q.desc['owner_program'] for q in qs],
                 'schedule': 'K thread choices per query; "complete_runs": K is asserted sufficient for every schedule to terminate (so stop() returns on all of them); otherwise the claim is about the first K steps of every schedule',
                 'outside': 'more tasks/workers; expiring workers; weak memory; schedules longer than K in prefix queries'}
    ck.assumptions = ASSUME
    ck.collect_functions([H] + [os.path.join(ck.ws.prepare_repo(), s) for s in SRCS], ['NTASK=1', 'MAXTHREADS=1', 'VF_LIST_CAP=3', 'VF_SPLIT_ENTRY=1'])
    ck.run_all(qs)
    ck.classify(qs)
    return ck.finish(qs, rule='one CBMC query per owner program over the sequentialised real ThreadPool.cpp/Thread.cpp decides over every schedule: stop() returns (no deadlock: a join that can never be enabled is reported), '
                     'getThreadCount()==0 afterwards, no task running, queued tasks destroyed, a later start() works, worker count <= maximum', stubs=STUBS)


def replay(path):
    ck = PoolCheck('C08', 'quick', 0)
    ok, out = ck.native_replay(path)
    print(out)
    if ok:
        print('VIOLATION property=C08 replay=%s' % path)
        return 1
    return 0

"""C02: every lock request is eventually granted; after everything was released the Resource is idle again."""
from checks.resource_common import *


def plan(tier):
    qs = []
    # (a) two workers + the idle checker thread
    for pairs, K in ([(1, 24)] if tier == 'quick' else [(1, 24), (2, 40)]):
        for progs in multisets(2, pairs):
            qs.append(ResQuery('idle_%s' % '_'.join(progs), progs, harness_defs=['C02_IDLE=1'], cbmc_defs=['VF_LIVENESS=1'], K=K, checker=True, timeout=1500 if tier == 'quick' else 3000,
                               expect_reach=['all threads finished', 'idle again after all locks were released'],
                               desc={'threads': list(progs), 'then': 'checker thread: lockWrite/unlockWrite/lockRead x2/unlockRead x2 must not park', 'symbolic': 'the schedule (%d thread choices)' % K,
                                     'spurious_wakeups': 'off (a correct lock must not depend on them)'}))
    # (b) three (thorough: four) workers, deadlock / lost wake-up detector; the first schedule choice is a cube
    sets = [(3, 1, 22)] if tier == 'quick' else [(3, 1, 22)]
    for n, pairs, K in sets:
        for progs in multisets(n, pairs):
            if tier == 'quick' and 'W' not in progs:
                continue   # reader-only programs never queue (C12 checks that)
            for t0 in range(n):
                qs.append(ResQuery('live_%s_first%d' % ('_'.join(progs), t0), progs, cbmc_defs=['VF_LIVENESS=1'], K=K, prefix=[t0], timeout=1500 if tier == 'quick' else 3000,
                                   desc={'threads': list(progs), 'first_scheduled_thread': t0, 'symbolic': 'the remaining %d schedule choices' % (K - 1), 'spurious_wakeups': 'off'}))
    # (b2) contention, fully idle, contention again on the same Resource (ticket bookkeeping across idle periods)
    # thorough only: 700 s on its own (the quick tier has to stay well below 15 minutes)
    if tier != 'quick':
      qs.append(ResQuery('reuse_WWW_WW', ('WWW', 'WW'), cbmc_defs=['VF_LIVENESS=1'], K=40, timeout=2400,
                       desc={'threads': ['WWW', 'WW'], 'symbolic': 'the schedule (40 thread choices)', 'note': 'covers histories in which the Resource becomes idle between two contended periods'}))
    # (c) a request arriving between the admission of a queued batch and the resumption of its threads: one thread issues a second request
    if tier == 'quick':
        # quick: every schedule PREFIX of 20 steps is free of deadlock states (the schedules are not required to complete within the bound)
        progs, K = ('WR', 'R', 'R'), 20
        for t0 in range(3):
            qs.append(ResQuery('late_arrival_%s_first%d' % ('_'.join(progs), t0), progs, cbmc_defs=['VF_LIVENESS=1', 'VF_PREFIX_ONLY=1'], K=K, prefix=[t0], timeout=2400, expect_reach=[],
                               desc={'threads': list(progs), 'first_scheduled_thread': t0, 'symbolic': 'the remaining %d schedule choices' % (K - 1), 'spurious_wakeups': 'off',
                                     'note': 'prefix exploration: covers requests that arrive while admitted waiters have not resumed yet; completion within the bound is checked in the thorough tier'}))
    else:
        for progs, K in [(('WR', 'R', 'R'), 30), (('WW', 'R', 'R'), 30), (('RW', 'R', 'W'), 30)]:
            for t0 in range(len(progs)):
                qs.append(ResQuery('late_arrival_%s_first%d' % ('_'.join(progs), t0), progs, cbmc_defs=['VF_LIVENESS=1'], K=K, prefix=[t0], timeout=3600,
                                   desc={'threads': list(progs), 'first_scheduled_thread': t0, 'symbolic': 'the remaining %d schedule choices' % (K - 1), 'spurious_wakeups': 'off',
                                         'note': 'covers requests that arrive while admitted waiters have not resumed yet'}))
    return qs


def run(tier, seed):
    ck = ResCheck('C02', tier, seed)
    qs = plan(tier)
    ck.bounds = {'threads': '2 workers x 1 pair + idle checker; 3 workers x 1 pair' if tier == 'quick' else '2 workers x <=2 pairs + idle checker; 3 workers x 1 pair',
                 'schedule length': 'K steps per query, asserted sufficient (BOUND assertion: every thread finishes within K)', 'outside': 'more threads / longer programs; weak memory'}
    ck.assumptions = COMMON_ASSUME + ['spurious wake-ups disabled: liveness must not depend on them', 'critical sections do not wait for anything else (one scheduling point inside)']
    ck.collect_functions([H, os.path.join(ck.ws.prepare_repo(), 'src/threading/rwp/Resource.cpp')], ['NW=2', 'P0=5', 'P1=1'])
    ck.run_all(qs)
    ck.classify(qs)
    return ck.finish(qs, rule='cube = multiset of thread programs (kinds R/W); one CBMC query per cube over the sequentialised real Resource.cpp decides over every schedule of K steps: before each step some unfinished thread is '
                     'enabled (deadlock / lost wake-up detector), all threads finish within K, and the idle checker never parks', stubs=['std::deque (ring model)', 'std::mutex', 'std::condition_variable'])


def replay(path):
    ck = ResCheck('C02', 'quick', 0)
    ok, out = ck.native_replay(path)
    print(out)
    if ok:
        print('VIOLATION property=C02 replay=%s' % path)
        return 1
    return 0

"""C18: Path string operations are consistent; Path agrees with the (modelled) file system — cubes x SAT query each."""
import os, itertools
from vflib.check import Check
from vflib.core import VERIF
from checks.skel import Unit, CubeQuery, run_cubes

H = os.path.join(VERIF, 'harness', 'h_path.cpp')
SRCS = ['src/Path.cpp', 'src/DirectoryVisitor.cpp', 'src/Exception.cpp']
NAMES = ['a', '.b', 'c c']


def trees(maxn):
    """tree shapes: node i (1..n) has parent < i (0 = root) and is a file or a directory; children of one parent have distinct names; parents are directories"""
    out = []
    for n in range(0, maxn + 1):
        def rec(i, acc):
            if i > n:
                out.append(list(acc))
                return
            for par in range(0, i):
                if par != 0 and not acc[par - 1][1]:
                    continue
                depth = 1
                q = par
                while q != 0:
                    depth += 1
                    q = acc[q - 1][0]
                if depth > 2:
                    continue
                for isdir in (0, 1):
                    for nm in range(3):
                        if any(a[0] == par and a[2] == nm for a in acc):
                            continue
                        if any(a[0] == par and a[2] > nm for a in acc):
                            continue   # symmetry: names under one parent in increasing order of creation
                        rec(i + 1, acc + [(par, isdir, nm)])
        rec(1, [])
    return out


def plan(tier):
    us = Unit('path_str', [H], ['MODE=0', 'VF_STR_CAP=%d' % (9 if tier == 'quick' else 13)], repo_srcs=SRCS, extra_rt=['rt_fs.c'])
    uf = Unit('path_fs', [H], ['MODE=1', 'VF_STR_CAP=12'], repo_srcs=SRCS, extra_rt=['rt_fs.c'])
    qs = []
    maxl = 4 if tier == 'quick' else 6
    for ld in range(0, maxl + 1):
        for ln in range(0, maxl + 1):
            if ld >= 1 and ln >= 1:
                qs.append(CubeQuery('str_join_d%d_n%d' % (ld, ln), us, [ld, ln, 0], unwind=16, timeout=600, expect_reach=['join/name/parent consistent'],
                                    desc={'part': 'string', 'scenario': 'name(join(d,n)) == n, parent(join(d,n)) == d minus one trailing separator', 'len(d)': ld, 'len(n)': ln, 'symbolic': 'every byte of d and n (any byte but NUL; n separator-free)'}))
            if ln >= 1:
                qs.append(CubeQuery('str_abs_d%d_a%d' % (ld, ln), us, [ld, ln, 1], unwind=16, timeout=600, expect_reach=['absolute join'],
                                    desc={'part': 'string', 'scenario': 'join(d, absolute) == absolute', 'len(d)': ld, 'len(abs)': ln, 'symbolic': 'every byte'}))
        qs.append(CubeQuery('str_total_%d' % ld, us, [ld, 0, 2], unwind=16, timeout=600, expect_reach=['total'],
                            desc={'part': 'string', 'scenario': 'totality of getPathName/getParentDirectory/join on an arbitrary string', 'len': ld, 'symbolic': 'every byte'}))
    for t in trees(2 if tier == 'quick' else 3):
        cube = [len(t)]
        for (par, isdir, nm) in t:
            cube += [par, isdir * 4 + nm]
        cube += [0] * (9 - len(cube))
        qs.append(CubeQuery('fs_' + '_'.join('%d%s%s' % (p, 'd' if d else 'f', 'abc'[n]) for p, d, n in t) if t else 'fs_empty', uf, cube, unwind=16, timeout=900, expect_reach=['file system part'],
                            desc={'part': 'file system', 'tree': [{'parent': p, 'kind': 'dir' if d else 'file', 'name': NAMES[n]} for p, d, n in t], 'symbolic': 'file sizes (0..4) and contents'}))
    return [us, uf], qs


def run(tier, seed):
    ck = Check('C18', tier, seed)
    units, qs = plan(tier)
    ck.bounds = {'string lengths': '0..%d bytes each' % (4 if tier == 'quick' else 6), 'trees': '<= %d nodes below the root, depth <= 2, names {a, .b, "c c"}' % (2 if tier == 'quick' else 3), 'file sizes': '0..4 bytes',
                 'outside': 'the real kernel/file system (the model is the POSIX contract), symlinks, permissions, longer strings and larger trees; directory names ending in a backslash (not a separator for join on Linux)'}
    ck.assumptions = ['POSIX model rt/rt_fs.c (see C17)', 'model std::string with [basic.string] semantics for find/find_last_of/erase incl. npos arithmetic; model forward_list', 'names are compared as bytes: spaces, dots, non-ASCII need no special case']
    ck.collect_functions([H] + [os.path.join(ck.ws.prepare_repo(), s) for s in SRCS], ['MODE=1'])
    run_cubes(ck, units, qs)
    ck.classify(qs)
    return ck.finish(qs, rule='string part: cube = (len(d), len(n), scenario), all bytes symbolic; file-system part: cube = tree shape with names, file sizes and contents symbolic; one CBMC query per cube',
                     stubs=['POSIX stdio/dirent/cwd model (rt_fs.c)', 'std::string', 'std::forward_list'])


def replay(path):
    print('C18 counterexamples are relative to the POSIX model; string-part counterexamples can be replayed natively')
    ck = Check('C18', 'quick', 0)
    ok, out = ck.native_replay(path)
    print(out)
    if ok:
        print('VIOLATION property=C18 replay=%s' % path)
        return 1
    return 0
